package main

// Reference semantics: a naive recursive tree interpreter written from the
// README and the property statements. It is the trusted base of the oracles.

import (
	"errors"
	"fmt"
	"strconv"
	"strings"
)

type dneT struct{}

var refDNE = dneT{}

var (
	ErrUnbound = errors.New("verif-sentinel: variable is not bound")
	ErrCustom  = errors.New("verif-sentinel: custom operator failed")
)

// BuiltinErr is the reference's prediction "this built-in application fails".
type BuiltinErr struct {
	Op   string
	Args []interface{}
	Why  string
}

func (e *BuiltinErr) Error() string {
	return fmt.Sprintf("ref: %s%v fails (%s)", e.Op, e.Args, e.Why)
}

func isBuiltinErr(err error) bool { _, ok := err.(*BuiltinErr); return ok }

// Eff is one observable effect: a variable fetch or a custom operator call.
type Eff struct {
	Get      bool
	Name     string
	Args     string // custom call: printed arguments
	Res      string // custom call: printed result or "ERR"
	Optional bool   // reference only: the effect may or may not happen (fast two-leaf and/or)
}

func (e Eff) String() string {
	o := ""
	if e.Optional {
		o = "?"
	}
	if e.Get {
		return o + "get(" + e.Name + ")"
	}
	return o + e.Name + e.Args + "=" + e.Res
}

// App is one operator application (for OP_EXEC checking).
type App struct {
	Name     string
	Args     []interface{}
	Res      interface{}
	Failed   bool
	Optional bool
}

func (a App) String() string {
	o := ""
	if a.Optional {
		o = "?"
	}
	r := valText(a.Res)
	if a.Failed {
		r = "ERR"
	}
	return fmt.Sprintf("%s%s%s=%s", o, a.Name, argsText(a.Args), r)
}

func argsText(a []interface{}) string {
	s := make([]string, len(a))
	for i, x := range a {
		s[i] = valText(x)
	}
	return "[" + strings.Join(s, " ") + "]"
}

// CustomOp is a harness-defined registered operator. Fn must be pure.
type CustomOp struct {
	Name string
	Fn   func(args []interface{}) (interface{}, error)
	// CtxFn, when set, is what the registered operator runs at evaluation time (it sees the evaluation context);
	// it must compute the same function as Fn
	CtxFn func(ctx interface{}, args []interface{}) (interface{}, error)
	// MutatesArgs: the registered operator reorders the argument slice it is handed (it owns its arguments for the
	// duration of the call); ReturnsArgs: its result is that very slice (a tuple constructor that keeps its arguments)
	MutatesArgs bool
	ReturnsArgs bool
}

// RefCov is what the reference evaluation observed about its own control flow.
type RefCov struct {
	AndFalse, OrTrue   int // short-circuits taken
	MultiLevel         int // a decided and/or that in turn decides its and/or parent
	IfBranchDecides    int // a value coming out of an if branch decides the enclosing and/or
	ErrAfterJump       int
	ErrSkipped         int // a skipped operand would have failed
	SkippedGets        int
	SkippedCalls       int
	UntakenBranchGets  int
	UntakenBranchCalls int
	OpsApplied         map[string]int
}

type Env struct {
	Vars   map[string]interface{} // bound values (engine-normalised types)
	Avail  map[string]bool        // Kleene: nil => every bound variable is available
	Custom map[string]*CustomOp

	// options
	FastOpt    bool // emit the optional extra fetch/apply of two-leaf and/or
	RecordApps bool
	StrictAll  bool // evaluate every operand of every reached and/or (no short-circuit); if stays lazy
	// FastStrict: a two-leaf and/or fetches both leaves and applies the operator to both (type checks included), the way
	// the pinned engine's inlined two-leaf operators do. Only used to recognise the open C02 finding, never as an oracle.
	FastStrict bool
	WantCov    bool

	// outputs
	Trace    []Eff
	Apps     []App
	Cov      RefCov
	FailNode *Node // the operator / if node whose application failed (first failure)
	jumps    int
}

func (env *Env) lookup(name string) (interface{}, bool) {
	v, ok := env.Vars[name]
	return v, ok
}

func (env *Env) countOp(name string) {
	if env.WantCov {
		if env.Cov.OpsApplied == nil {
			env.Cov.OpsApplied = map[string]int{}
		}
		env.Cov.OpsApplied[name]++
	}
}

func staticEffects(n *Node, custom map[string]*CustomOp) (gets, calls int) {
	n.Walk(func(x *Node) {
		if x.Kind == KVar {
			gets++
		}
		if x.Kind == KOp {
			if _, ok := custom[x.Name]; ok {
				calls++
			}
		}
	})
	return
}

func (env *Env) wouldFail(n *Node) bool {
	sub := &Env{Vars: env.Vars, Custom: env.Custom}
	_, err := sub.eval(n, nil)
	return err != nil
}

// Eval: strict left-to-right evaluation with short-circuiting and/or and lazy if.
func (env *Env) Eval(n *Node) (interface{}, error) {
	v, err := env.eval(n, nil)
	if err != nil && env.jumps > 0 {
		env.Cov.ErrAfterJump++
	}
	return v, err
}

func (env *Env) eval(n *Node, parent *Node) (interface{}, error) {
	if name, ok := remoteVar(n); ok {
		return env.eval(Var(name, n.Ty), parent)
	}
	switch n.Kind {
	case KLit:
		return n.Val, nil
	case KVar:
		env.Trace = append(env.Trace, Eff{Get: true, Name: n.Name})
		v, ok := env.lookup(n.Name)
		if !ok {
			return nil, ErrUnbound
		}
		return v, nil
	case KIf:
		if len(n.Ch) != 3 {
			return nil, &BuiltinErr{Op: "if", Why: "count"}
		}
		c, err := env.eval(n.Ch[0], n)
		if err != nil {
			return nil, err
		}
		b, ok := c.(bool)
		if !ok {
			if env.FailNode == nil {
				env.FailNode = n
			}
			return nil, &BuiltinErr{Op: "if", Args: []interface{}{c}, Why: "non-bool condition"}
		}
		taken, other := n.Ch[1], n.Ch[2]
		if !b {
			taken, other = other, taken
		}
		if env.WantCov {
			g, c := staticEffects(other, env.Custom)
			env.Cov.UntakenBranchGets += g
			env.Cov.UntakenBranchCalls += c
		}
		v, err := env.eval(taken, n)
		if err == nil && env.WantCov && parent != nil && parent.IsAndOr() {
			if bv, ok := v.(bool); ok && bv == isOrName(parent.Name) {
				env.Cov.IfBranchDecides++
			}
		}
		return v, err
	}

	if n.IsAndOr() {
		return env.evalAndOr(n, parent)
	}

	args := make([]interface{}, 0, len(n.Ch))
	for _, c := range n.Ch {
		v, err := env.eval(c, n)
		if err != nil {
			return nil, err
		}
		args = append(args, v)
	}
	res, err := env.apply(n.Name, args, false)
	if err != nil && env.FailNode == nil {
		env.FailNode = n
	}
	return res, err
}

func (env *Env) apply(name string, args []interface{}, optional bool) (interface{}, error) {
	var (
		res interface{}
		err error
	)
	atCall := append([]interface{}{}, args...) // the arguments as they are at call time (an operator may reorder its own copy)
	if f, ok := env.Custom[name]; ok {
		res, err = f.Fn(append([]interface{}{}, args...))
		r := "ERR"
		if err == nil {
			r = valText(res)
		}
		env.Trace = append(env.Trace, Eff{Name: name, Args: argsText(atCall), Res: r, Optional: optional})
	} else {
		res, err = applyBuiltin(name, args)
	}
	env.countOp(name)
	if env.RecordApps {
		env.Apps = append(env.Apps, App{Name: name, Args: atCall, Res: res, Failed: err != nil, Optional: optional})
	}
	return res, err
}

func (env *Env) evalAndOr(n *Node, parent *Node) (interface{}, error) {
	isOr := isOrName(n.Name)
	decided := false
	var result bool
	args := make([]interface{}, 0, len(n.Ch))

	// Fast two-leaf and/or may fetch both leaves and apply the operator even
	// when the first leaf decides: the permitted extra work.
	twoLeaf := env.FastOpt && len(n.Ch) == 2 && n.Ch[0].IsLeaf() && n.Ch[1].IsLeaf()
	if env.FastStrict && len(n.Ch) == 2 && n.Ch[0].IsLeaf() && n.Ch[1].IsLeaf() {
		res := !isOr
		for _, c := range n.Ch {
			v, err := env.eval(c, n)
			if err != nil {
				return nil, err
			}
			b, ok := v.(bool)
			if !ok {
				return nil, &BuiltinErr{Op: n.Name, Args: []interface{}{v}, Why: "non-bool operand of an inlined two-leaf and/or"}
			}
			if isOr {
				res = res || b
			} else {
				res = res && b
			}
		}
		return res, nil
	}

	for i, c := range n.Ch {
		if decided && !env.StrictAll {
			if twoLeaf && i == 1 {
				// optional extra fetch + application
				var v interface{}
				ok := true
				if c.Kind == KVar {
					env.Trace = append(env.Trace, Eff{Get: true, Name: c.Name, Optional: true})
					v, ok = env.lookup(c.Name)
				} else {
					v = c.Val
				}
				if ok && env.RecordApps {
					a2 := append(append([]interface{}{}, args...), v)
					r, err := applyBuiltin(n.Name, a2)
					env.Apps = append(env.Apps, App{Name: n.Name, Args: a2, Res: r, Failed: err != nil, Optional: true})
				}
				break
			}
			if env.WantCov {
				for _, rest := range n.Ch[i:] {
					g, cc := staticEffects(rest, env.Custom)
					env.Cov.SkippedGets += g
					env.Cov.SkippedCalls += cc
					if env.wouldFail(rest) {
						env.Cov.ErrSkipped++
					}
				}
			}
			break
		}
		v, err := env.eval(c, n)
		if err != nil {
			return nil, err
		}
		args = append(args, v)
		b, ok := v.(bool)
		if !ok {
			// documented semantics: and/or take boolean operands
			return nil, &BuiltinErr{Op: n.Name, Args: append([]interface{}{}, args...), Why: "non-bool operand"}
		}
		if !decided && b == isOr {
			decided, result = true, b
			if i < len(n.Ch)-1 {
				env.jumps++
				if isOr {
					env.Cov.OrTrue++
				} else {
					env.Cov.AndFalse++
				}
			}
		}
	}
	if len(n.Ch) < 2 {
		return nil, &BuiltinErr{Op: n.Name, Args: args, Why: "count"}
	}
	if !decided {
		result = !isOr
		// all operands evaluated: the engine may or may not apply the operator
		if env.RecordApps && len(args) == len(n.Ch) {
			env.Apps = append(env.Apps, App{Name: n.Name, Args: append([]interface{}{}, args...), Res: result, Optional: true})
		}
	} else if env.RecordApps && len(args) == len(n.Ch) && !twoLeaf {
		// decided by the last operand (or StrictAll): optional application
		env.Apps = append(env.Apps, App{Name: n.Name, Args: append([]interface{}{}, args...), Res: result, Optional: true})
	} else if env.RecordApps && twoLeaf && len(args) == 2 {
		env.Apps = append(env.Apps, App{Name: n.Name, Args: append([]interface{}{}, args...), Res: result, Optional: true})
	}
	env.countOp(n.Name)
	if decided && env.WantCov && parent != nil && parent.IsAndOr() && result == isOrName(parent.Name) {
		env.Cov.MultiLevel++
	}
	return result, nil
}

// Kleene: three-valued evaluation. Unavailable variables are DNE. and/or are
// decided by any available deciding operand; every other operator is DNE if
// any operand is DNE. Errors: returned as err (the caller restricts itself to
// total programs for C05).
func (env *Env) Kleene(n *Node) (interface{}, error) {
	if name, ok := remoteVar(n); ok {
		return env.Kleene(Var(name, n.Ty))
	}
	switch n.Kind {
	case KLit:
		return n.Val, nil
	case KVar:
		if env.Avail != nil && !env.Avail[n.Name] {
			return refDNE, nil
		}
		v, ok := env.lookup(n.Name)
		if !ok {
			return refDNE, nil
		}
		return v, nil
	case KIf:
		c, err := env.Kleene(n.Ch[0])
		if err != nil {
			return nil, err
		}
		if c == refDNE {
			return refDNE, nil
		}
		b, ok := c.(bool)
		if !ok {
			return nil, &BuiltinErr{Op: "if", Why: "non-bool condition"}
		}
		if b {
			return env.Kleene(n.Ch[1])
		}
		return env.Kleene(n.Ch[2])
	}
	args := make([]interface{}, 0, len(n.Ch))
	anyDNE := false
	var firstErr error
	for _, c := range n.Ch {
		v, err := env.Kleene(c)
		if err != nil {
			if firstErr == nil {
				firstErr = err
			}
			continue
		}
		if v == refDNE {
			anyDNE = true
		}
		args = append(args, v)
	}
	if isAndName(n.Name) {
		for _, a := range args {
			if a == false {
				return false, nil
			}
		}
	}
	if isOrName(n.Name) {
		for _, a := range args {
			if a == true {
				return true, nil
			}
		}
	}
	if firstErr != nil {
		return nil, firstErr
	}
	if anyDNE {
		return refDNE, nil
	}
	if f, ok := env.Custom[n.Name]; ok {
		return f.Fn(append([]interface{}{}, args...))
	}
	return applyBuiltin(n.Name, args)
}

// ---------------------------------------------------------------------------
// built-in operator oracles

func asInts(a []interface{}) ([]int64, bool) {
	r := make([]int64, len(a))
	for i, x := range a {
		v, ok := x.(int64)
		if !ok {
			return nil, false
		}
		r[i] = v
	}
	return r, true
}

func asBools(a []interface{}) ([]bool, bool) {
	r := make([]bool, len(a))
	for i, x := range a {
		v, ok := x.(bool)
		if !ok {
			return nil, false
		}
		r[i] = v
	}
	return r, true
}

func isListOrSet(v interface{}) bool {
	switch v.(type) {
	case []int64, []string, map[int64]struct{}, map[string]struct{}:
		return true
	}
	return false
}

func scalarEq(a, b interface{}) bool {
	switch x := a.(type) {
	case nil:
		return b == nil
	case int64:
		y, ok := b.(int64)
		return ok && x == y
	case bool:
		y, ok := b.(bool)
		return ok && x == y
	case string:
		y, ok := b.(string)
		return ok && x == y
	}
	// values of other (comparable) Go types, e.g. an int or float64 that reached the operator un-normalised:
	// equal only to a value of the identical type and value
	if isListOrSet(a) || isListOrSet(b) {
		return false
	}
	return a == b
}

func applyBuiltin(name string, a []interface{}) (interface{}, error) {
	fail := func(why string) (interface{}, error) {
		return nil, &BuiltinErr{Op: name, Args: append([]interface{}{}, a...), Why: why}
	}
	cn := canonName(name)
	switch cn {
	case "add", "sub", "mul", "div", "mod":
		if len(a) < 2 {
			return fail("count")
		}
		v, ok := asInts(a)
		if !ok {
			return fail("type")
		}
		res := v[0]
		for _, x := range v[1:] {
			switch cn {
			case "add":
				res += x
			case "sub":
				res -= x
			case "mul":
				res *= x
			case "div":
				if x == 0 {
					return fail("zero divisor")
				}
				if res == -1<<63 && x == -1 {
					// two's complement wrap-around: MinInt64 / -1 = MinInt64
					res = -1 << 63
				} else {
					res /= x
				}
			case "mod":
				if x == 0 {
					return fail("zero divisor")
				}
				if x == -1 {
					res = 0
				} else {
					res %= x
				}
			}
		}
		return res, nil
	case "and", "or", "xor":
		if len(a) < 2 {
			return fail("count")
		}
		b, ok := asBools(a)
		if !ok {
			return fail("type")
		}
		res := b[0]
		for _, v := range b[1:] {
			switch cn {
			case "and":
				res = res && v
			case "or":
				res = res || v
			default:
				res = res != v
			}
		}
		return res, nil
	case "not":
		if len(a) != 1 {
			return fail("count")
		}
		b, ok := a[0].(bool)
		if !ok {
			return fail("type")
		}
		return !b, nil
	case "eq":
		if len(a) < 2 {
			return fail("count")
		}
		for _, x := range a {
			if isListOrSet(x) {
				return fail("uncomparable")
			}
		}
		for _, x := range a {
			if !scalarEq(a[0], x) {
				return false, nil
			}
		}
		return true, nil
	case "ne":
		if len(a) != 2 {
			return fail("count")
		}
		for _, x := range a {
			if isListOrSet(x) {
				return fail("uncomparable")
			}
		}
		return !scalarEq(a[0], a[1]), nil
	case "gt", "lt", "ge", "le":
		if len(a) != 2 {
			return fail("count")
		}
		v, ok := asInts(a)
		if !ok {
			return fail("type")
		}
		switch cn {
		case "gt":
			return v[0] > v[1], nil
		case "lt":
			return v[0] < v[1], nil
		case "ge":
			return v[0] >= v[1], nil
		default:
			return v[0] <= v[1], nil
		}
	case "between":
		if len(a) != 3 {
			return fail("count")
		}
		v, ok := asInts(a)
		if !ok {
			return fail("type")
		}
		return v[1] <= v[0] && v[0] <= v[2], nil
	case "in":
		if len(a) != 2 {
			return fail("count")
		}
		switch v := a[0].(type) {
		case int64:
			switch l := a[1].(type) {
			case []int64:
				for _, e := range l {
					if e == v {
						return true, nil
					}
				}
				return false, nil
			case []string:
				if len(l) == 0 {
					return false, nil
				}
			case map[int64]struct{}:
				_, ok := l[v]
				return ok, nil
			}
			return fail("type")
		case string:
			switch l := a[1].(type) {
			case []string:
				for _, e := range l {
					if e == v {
						return true, nil
					}
				}
				return false, nil
			case map[string]struct{}:
				_, ok := l[v]
				return ok, nil
			case []int64:
				// an empty int list variable: membership of a string is a type mismatch
				return fail("type")
			}
			return fail("type")
		}
		return fail("type")
	case "overlap":
		if len(a) != 2 {
			return fail("count")
		}
		switch A := a[0].(type) {
		case []int64:
			switch B := a[1].(type) {
			case []int64:
				set := map[int64]bool{}
				for _, x := range A {
					set[x] = true
				}
				for _, y := range B {
					if set[y] {
						return true, nil
					}
				}
				return false, nil
			case []string:
				if len(B) == 0 {
					return false, nil
				}
			}
			return fail("type")
		case []string:
			switch B := a[1].(type) {
			case []string:
				set := map[string]bool{}
				for _, x := range A {
					set[x] = true
				}
				for _, y := range B {
					if set[y] {
						return true, nil
					}
				}
				return false, nil
			case []int64:
				if len(A) == 0 {
					return false, nil
				}
			}
			return fail("type")
		}
		return fail("type")
	case "version", "t_version":
		var n int64 = 3
		switch len(a) {
		case 1:
		case 2:
			v, ok := a[1].(int64)
			if !ok {
				return fail("type")
			}
			if v < 1 || v > 4 {
				return fail("valid length")
			}
			n = v
		default:
			return fail("count")
		}
		s, ok := a[0].(string)
		if !ok {
			return fail("type")
		}
		comps, ok := versionComponents(s, int(n))
		if !ok {
			return fail("version text")
		}
		var res int64
		for _, c := range comps {
			res = res*refVersionBase + c
		}
		return res, nil
	case "date", "datetime", "t_time", "t_date", "td_time", "td_date":
		var layout string
		switch cn {
		case "date", "datetime":
			switch len(a) {
			case 1:
				layout = map[string]string{"date": "2006-01-02", "datetime": "2006-01-02 15:04:05"}[cn]
			case 2:
				l, ok := a[1].(string)
				if !ok {
					return fail("type")
				}
				layout = l
			default:
				return fail("count")
			}
		case "t_time", "t_date":
			if len(a) != 2 {
				return fail("count")
			}
			l, ok := a[1].(string)
			if !ok {
				return fail("type")
			}
			layout = l
		default:
			if len(a) != 1 {
				return fail("count")
			}
			layout = map[string]string{"td_date": "2006-01-02", "td_time": "2006-01-02 15:04:05"}[cn]
		}
		s, ok := a[0].(string)
		if !ok {
			return fail("type")
		}
		u, ok := refParseTime(layout, s)
		if !ok {
			return fail("time text")
		}
		return u, nil
	}
	panic("ref: unknown operator " + name)
}

// refVersionBase is the radix of the version encoding. The README documents
// the encoding only as "a specially formatted number", and C19 asks for order
// preservation, not for a particular radix - so the radix is read off the
// engine once per process (calibrateRef) and the reference then demands that
// every version is the polynomial in that radix. Anything below 10000 (which
// cannot preserve order for components up to 9999) or a non-polynomial answer
// leaves the default, so that such an engine disagrees with the reference.
var refVersionBase int64 = 10000

// versionComponents: the first n dot-separated components (missing = 0);
// ok=false if one of the first n present components is not a number in 0..9999.
// Signs and other forms strconv accepts are outside the property's domain and
// are never generated; they are rejected here.
func versionComponents(s string, n int) ([]int64, bool) {
	parts := strings.Split(s, ".")
	res := make([]int64, n)
	for i := 0; i < n; i++ {
		if i >= len(parts) {
			continue
		}
		p := parts[i]
		if p == "" {
			return nil, false
		}
		for _, c := range p {
			if c < '0' || c > '9' {
				return nil, false
			}
		}
		v, err := strconv.ParseInt(p, 10, 64)
		if err != nil || v >= 10000 {
			return nil, false
		}
		res[i] = v
	}
	return res, true
}

// ---------------------------------------------------------------------------
// independent date arithmetic (no package time)

func daysFromCivil(y, m, d int64) int64 {
	if m <= 2 {
		y--
	}
	var era int64
	if y >= 0 {
		era = y / 400
	} else {
		era = (y - 399) / 400
	}
	yoe := y - era*400
	mp := (m + 9) % 12
	doy := (153*mp+2)/5 + d - 1
	doe := yoe*365 + yoe/4 - yoe/100 + doy
	return era*146097 + doe - 719468
}

func isLeap(y int64) bool { return y%4 == 0 && (y%100 != 0 || y%400 == 0) }

func daysIn(y, m int64) int64 {
	switch m {
	case 2:
		if isLeap(y) {
			return 29
		}
		return 28
	case 4, 6, 9, 11:
		return 30
	}
	return 31
}

// refParseTime understands the layout elements the workloads use:
// 2006 01 02 15 04 05 Z07:00 and literal separators. Strict fixed widths.
func refParseTime(layout, s string) (int64, bool) {
	var y, mo, d, h, mi, se, off int64 = 1, 1, 1, 0, 0, 0, 0
	haveY := false
	num := func(w int) (int64, bool) {
		if len(s) < w {
			return 0, false
		}
		var v int64
		for i := 0; i < w; i++ {
			c := s[i]
			if c < '0' || c > '9' {
				return 0, false
			}
			v = v*10 + int64(c-'0')
		}
		s = s[w:]
		return v, true
	}
	for len(layout) > 0 {
		var ok bool
		switch {
		case strings.HasPrefix(layout, "2006"):
			layout = layout[4:]
			y, ok = num(4)
			haveY = true
		case strings.HasPrefix(layout, "01"):
			layout = layout[2:]
			mo, ok = num(2)
		case strings.HasPrefix(layout, "02"):
			layout = layout[2:]
			d, ok = num(2)
		case strings.HasPrefix(layout, "15"):
			layout = layout[2:]
			h, ok = num(2)
		case strings.HasPrefix(layout, "04"):
			layout = layout[2:]
			mi, ok = num(2)
		case strings.HasPrefix(layout, "05"):
			layout = layout[2:]
			se, ok = num(2)
		case strings.HasPrefix(layout, "Z07:00"):
			layout = layout[6:]
			if len(s) > 0 && s[0] == 'Z' {
				s = s[1:]
				ok = true
				break
			}
			if len(s) < 6 || (s[0] != '+' && s[0] != '-') || s[3] != ':' {
				return 0, false
			}
			sign := int64(1)
			if s[0] == '-' {
				sign = -1
			}
			s = s[1:]
			hh, ok1 := num(2)
			s = s[1:]
			mm, ok2 := num(2)
			if !ok1 || !ok2 || hh > 23 || mm > 59 {
				return 0, false
			}
			off = sign * (hh*3600 + mm*60)
			ok = true
		default:
			if len(s) == 0 || s[0] != layout[0] {
				return 0, false
			}
			s = s[1:]
			layout = layout[1:]
			ok = true
		}
		if !ok {
			return 0, false
		}
	}
	if len(s) != 0 {
		return 0, false
	}
	_ = haveY
	if mo < 1 || mo > 12 || d < 1 || d > daysIn(y, mo) || h > 23 || mi > 59 || se > 59 {
		return 0, false
	}
	return daysFromCivil(y, mo, d)*86400 + h*3600 + mi*60 + se - off, true
}
