package main

// Helpers shared by the property drivers.

import (
	"fmt"
	"math/rand"
	"strings"

	"github.com/onheap/eval"
)

// cfgFor builds the CaseCfg a generated tree needs (constants, variable
// registrations, custom operators).
func cfgFor(tree *Node, opts OptSet, undefined bool) CaseCfg {
	order, _ := tree.Vars()
	consts := map[string]interface{}{}
	tree.Consts(consts)
	names := append([]string{}, order...)
	// shadowed names are registered as variables too: the constant must win
	for _, s := range []string{"kshadow", "ishadow"} {
		if _, ok := consts[s]; ok {
			names = append(names, s)
		}
	}
	c := CaseCfg{Opts: opts, Undefined: undefined, Consts: consts, VarNames: names, Custom: stdCustom, Stateless: stdStateless}
	return c
}

// fetcherFor makes the recording fetcher of one call.
func fetcherFor(b Binding, rec *Recorder) *RecFetcher {
	return &RecFetcher{Vals: b.Vals, Avail: b.Avail, Rec: rec}
}

func refEnv(b Binding) *Env {
	return &Env{Vars: b.Vals, Avail: b.Avail, Custom: stdCustom}
}

// sameOutcome: engine outcome o against reference (want, wantErr).
// Returns "" when they agree, otherwise a description. Sentinel errors must be
// identical; built-in failures must be errors that are not sentinels.
func sameOutcome(o Outcome, want interface{}, wantErr error) string {
	if o.Panic != nil {
		return fmt.Sprintf("engine panicked: %v", o.Panic)
	}
	if wantErr == nil {
		if o.Err != nil {
			return fmt.Sprintf("engine failed with %q, reference value %s", o.Err, valText(want))
		}
		if !valEq(o.V, want) {
			return fmt.Sprintf("engine value %s, reference value %s", valText(o.V), valText(want))
		}
		return ""
	}
	if o.Err == nil {
		return fmt.Sprintf("engine returned %s, reference raises %v", valText(o.V), wantErr)
	}
	if wantErr == ErrUnbound || wantErr == ErrCustom {
		if o.Err != wantErr {
			return fmt.Sprintf("engine error %q is not the error the fetcher/operator returned (%v)", o.Err, wantErr)
		}
		return ""
	}
	if o.Err == ErrUnbound || o.Err == ErrCustom {
		return fmt.Sprintf("engine returned sentinel %v, reference predicts a built-in failure: %v", o.Err, wantErr)
	}
	return ""
}

// isolation oracle: the error a failing built-in returns when run alone.
var isoCache = map[string]string{}

func isolatedError(be *BuiltinErr) (string, bool) {
	key := be.Op + argsText(be.Args)
	if s, ok := isoCache[key]; ok {
		return s, s != ""
	}
	var src strings.Builder
	vals := map[string]interface{}{}
	var names []string
	if be.Op == "if" {
		src.WriteString("(if v0 1 2)")
		names = []string{"v0"}
		if len(be.Args) == 1 {
			vals["v0"] = be.Args[0]
		}
	} else {
		src.WriteString("(" + be.Op)
		for i, a := range be.Args {
			n := fmt.Sprintf("v%d", i)
			names = append(names, n)
			vals[n] = a
			src.WriteString(" " + n)
		}
		src.WriteString(")")
	}
	cc := buildConfig(CaseCfg{Opts: OptNone, VarNames: names}, nil)
	e, co := compileGuard(cc, src.String())
	res := ""
	if co.Err == nil && co.Panic == nil {
		o := guard(func() (eval.Value, error) {
			return e.Eval(&eval.Ctx{VariableFetcher: &RecFetcher{Vals: vals}})
		})
		if o.Err != nil {
			res = o.Err.Error()
		}
	}
	if len(isoCache) < 50000 {
		isoCache[key] = res
	}
	return res, res != ""
}

func pickStratum(r *rand.Rand, idx int) (*Stratum, *G, *Node) {
	s := &strata[idx%len(strata)]
	g := s.Make(r)
	return s, g, g.Root(s.Dep(r))
}

func allOptSets() []OptSet {
	r := make([]OptSet, 16)
	for i := range r {
		r[i] = OptSet(i)
	}
	return r
}

func describeCase(src string, c CaseCfg, b Binding) string {
	return fmt.Sprintf("source: %s\nconfig: %s\nbinding: %s", src, c, b)
}
