package main

// C19 — version and date encodings preserve order.

import (
	"fmt"
	"math/rand"
	"reflect"
	"regexp"
	"strconv"
	"strings"

	"github.com/onheap/eval"
)

func init() {
	register(&Prop{
		ID: "C19",
		Rule: "Versions: boundary set = all versions with <=2 components over {0,1,9,10,99,100,999,1000,9998,9999}, all 3- and 4-component versions over {0,1,9999}, carry neighbours (x.9999 vs x+1.0) and PRNG-chosen ones; for every valid length N in {default,1,2,3,4} and alias (version, t_version, to_version) " +
			"every version with <=N components is encoded by the engine and ALL pairs of the set are compared: cmp(enc(a),enc(b)) must equal the component-wise comparison of the source strings with missing components as 0; a sample of pairs is also compared inside the engine with <, =, >. " +
			"Rejection set: components 10000/65536/99999, non-numeric or empty components within the first N, valid lengths outside 1..4, wrong types and counts. " +
			"Dates: instants over years 0001..9999 incl. leap days, month/year ends and second boundaries, written in the default layouts, US and RFC3339 layouts with zone offsets, through every date alias; the encoding must equal UTC Unix seconds computed by independent calendar arithmetic, so chronological order is preserved; " +
			"the same instant in two layouts/zones must encode equal; unparsable text must be an error. A pair is non-trivial when it differs first at a component boundary or in component count, or the two dates are < 1 day apart or straddle a month/year/leap boundary; distinct = distinct pair text.",
		Assumptions: []string{
			"oracle compares the source strings (split + integer compare); dates via days-from-civil arithmetic in ref.go, independent of package time",
			"signed components (+1, -1) are outside the stated domain and not generated",
		},
		NumCases: func(tier string) int {
			if tier == "thorough" {
				return 15*4 + 4000
			}
			return 15*1 + 200
		},
		Run: c19Run,
		Floors: func(m *Merged, tier string) []string {
			var u []string
			for _, c := range []string{"version_pairs", "version_pairs_carry", "version_pairs_count_differs", "version_engine_comparisons", "version_rejections", "date_encodings", "date_pairs_close", "date_same_instant_pairs", "date_rejections", "date_leap_days", "date_noncanonical_texts", "version_foreign_length_probes"} {
				if m.C(c) == 0 {
					u = append(u, c+" = 0")
				}
			}
			for _, a := range []string{"version", "t_version", "to_version", "date", "to_date", "t_date", "td_date", "datetime", "to_datetime", "t_time", "td_time"} {
				if m.C("alias_"+a) == 0 {
					u = append(u, "alias never used: "+a)
				}
			}
			return u
		},
	})
}

var c19Vals = []int{0, 1, 9, 10, 99, 100, 999, 1000, 9998, 9999}

func c19VersionSet(r *rand.Rand, thorough bool) []string {
	var set []string
	for _, a := range c19Vals {
		set = append(set, strconv.Itoa(a))
		for _, b := range c19Vals {
			set = append(set, fmt.Sprintf("%d.%d", a, b))
		}
	}
	small := []int{0, 1, 9999}
	if thorough {
		small = []int{0, 1, 9, 5000, 9998, 9999}
		for _, a := range c19Vals {
			for _, b := range c19Vals {
				for _, c := range c19Vals {
					set = append(set, fmt.Sprintf("%d.%d.%d", a, b, c))
				}
			}
		}
	}
	for _, a := range small {
		for _, b := range small {
			for _, c := range small {
				set = append(set, fmt.Sprintf("%d.%d.%d", a, b, c))
				for _, d := range small {
					set = append(set, fmt.Sprintf("%d.%d.%d.%d", a, b, c, d))
				}
			}
		}
	}
	// carry neighbours and random ones
	for i := 0; i < 40; i++ {
		x := r.Intn(9999)
		set = append(set, fmt.Sprintf("%d.9999", x), fmt.Sprintf("%d.0", x+1), fmt.Sprintf("%d.9999.9999", x), fmt.Sprintf("%d.0.0", x+1),
			fmt.Sprintf("%d.%d.%d.%d", 9000+r.Intn(1000), r.Intn(10000), r.Intn(10000), r.Intn(10000)),
			fmt.Sprintf("%d.%d.%d", r.Intn(10000), r.Intn(10000), r.Intn(10000)))
	}
	// leading zeros are numeric
	set = append(set, "01.002", "0000.1", "1.0", "1.0.0", "1.0.0.0", "1", "0.0.0.1", "0.0.1", "0.1")
	// ... to any width: the value of a component counts, not how many characters write it
	set = append(set, "1.00002.3", "00010.00020.00030", "000000001", "0.0000009999", "00000.00000.00001", "09999.000009999")
	for i := 0; i < 10; i++ {
		set = append(set, fmt.Sprintf("%0*d.%0*d.%0*d", 1+r.Intn(9), r.Intn(10000), 1+r.Intn(9), r.Intn(10000), 1+r.Intn(9), r.Intn(10000)))
	}
	return set
}

func versionParts(s string) []int64 {
	var r []int64
	for _, p := range strings.Split(s, ".") {
		v, _ := strconv.ParseInt(p, 10, 64)
		r = append(r, v)
	}
	return r
}

func cmpVersions(a, b string) int {
	pa, pb := versionParts(a), versionParts(b)
	for i := 0; i < len(pa) || i < len(pb); i++ {
		var x, y int64
		if i < len(pa) {
			x = pa[i]
		}
		if i < len(pb) {
			y = pb[i]
		}
		if x != y {
			if x < y {
				return -1
			}
			return 1
		}
	}
	return 0
}

func c19EvalSrc(w *W, src string, opts OptSet) Outcome {
	cc := buildConfig(CaseCfg{Opts: opts}, nil)
	e, co := compileGuard(cc, src)
	w.Evals++
	if co.Panic != nil {
		return co
	}
	if co.Err != nil {
		return Outcome{Err: fmt.Errorf("compile: %w", co.Err)}
	}
	o, _ := callExpr(e, CallEval, &RecFetcher{Vals: map[string]interface{}{}}, nil, false)
	w.Evals++
	c19Reused(w, src, opts, o)
	return o
}

// c19Reused: a conversion written with literal operands, (alias "text" "layout") or (alias "text" N), is also evaluated
// through ONE long-lived compiled program per (alias, operand count, option set) of this process, (alias a0 a1), with the
// operands bound as variables - the way a rule engine evaluates one rule against many records. What a conversion gives
// is a function of its operands only, so both ways must agree, whatever that program was evaluated with before.
var (
	c19LitCall   = regexp.MustCompile(`^\(([a-z_]+) "([^"]*)"(?: (?:"([^"]*)"|(-?[0-9]+)))?\)$`)
	c19Programs  = map[string]*eval.Expr{}
	c19ProgramCC = map[string]*eval.Config{}
)

func c19Reused(w *W, src string, opts OptSet, fresh Outcome) {
	m := c19LitCall.FindStringSubmatch(src)
	if m == nil || fresh.Panic != nil {
		return
	}
	vals := map[string]interface{}{"a0": m[2]}
	prog := "(" + m[1] + " a0)"
	switch {
	case strings.HasSuffix(src, `")`) && strings.Count(src, `"`) == 4:
		vals["a1"] = m[3]
		prog = "(" + m[1] + " a0 a1)"
	case m[4] != "":
		n, err := strconv.ParseInt(m[4], 10, 64)
		if err != nil {
			return
		}
		vals["a1"] = n
		prog = "(" + m[1] + " a0 a1)"
	}
	key := fmt.Sprintf("%s|%d", prog, opts)
	e := c19Programs[key]
	if e == nil {
		cc := buildConfig(CaseCfg{Opts: opts, VarNames: []string{"a0", "a1"}}, nil)
		var co Outcome
		e, co = compileGuard(cc, prog)
		if co.Panic != nil || co.Err != nil {
			w.Fail("reused-program-does-not-compile", "%s does not compile: %s", prog, co)
			return
		}
		c19Programs[key] = e
		c19ProgramCC[key] = cc
	}
	o, _ := callExpr(e, CallEval, &RecFetcher{Vals: vals, Keys: c19ProgramCC[key].VariableKeyMap}, nil, false)
	w.Evals++
	w.Inc("evaluations_through_long_lived_programs")
	if (o.Err != nil) != (fresh.Err != nil) || o.Panic != nil || (o.Err == nil && !valEq(o.V, fresh.V)) {
		w.Fail("reused-program-differs-from-fresh", "%s evaluated alone gives %s; the long-lived program %s evaluated with a0=%q a1=%v gives %s (earlier evaluations of that program used other operands)", src, fresh, prog, vals["a0"], vals["a1"], o)
	}
}

func c19Run(w *W, idx int) {
	r := w.Rand(idx)
	nv := 15
	rounds := 1
	if w.Thorough() {
		rounds = 4
	}
	if idx < nv*rounds {
		// version encodings: (alias, N) combination
		k := idx % nv
		alias := []string{"version", "t_version", "to_version"}[k%3]
		n := k / 3 // 0 = default length, 1..4 explicit
		c19Versions(w, r, alias, n)
		if k == 0 {
			c19VersionRejections(w, r)
			c19ForeignLengths(w, r)
		}
		return
	}
	c19Dates(w, r, idx)
}

func c19Versions(w *W, r *rand.Rand, alias string, n int) {
	w.Inc("alias_" + alias)
	nEff := n
	if n == 0 {
		nEff = 3
	}
	set := c19VersionSet(r, w.Thorough())
	type enc struct {
		s string
		v int64
	}
	var encs []enc
	opts := []OptSet{OptNone, OptAll}[r.Intn(2)]
	seen := map[string]bool{}
	for _, s := range set {
		if seen[s] || len(strings.Split(s, ".")) > nEff {
			continue
		}
		seen[s] = true
		src := fmt.Sprintf("(%s \"%s\")", alias, s)
		if n != 0 {
			src = fmt.Sprintf("(%s \"%s\" %d)", alias, s, n)
		}
		o := c19EvalSrc(w, src, opts)
		if o.Panic != nil {
			w.Fail("panic/"+normPanic(o.Panic), "%s panicked: %v", src, o.Panic)
			continue
		}
		v, ok := o.V.(int64)
		if o.Err != nil || !ok {
			w.Fail("version-rejected-in-domain", "%s gave %s; a version with <=%d numeric components in 0..9999 must encode", src, o, nEff)
			continue
		}
		encs = append(encs, enc{s, v})
	}
	w.Sample("versions", fmt.Sprintf("(%s ... %d): %d versions, e.g. %s -> %d", alias, n, len(encs), encs[len(encs)/2].s, encs[len(encs)/2].v))
	sign := func(a, b int64) int {
		switch {
		case a < b:
			return -1
		case a > b:
			return 1
		}
		return 0
	}
	for i := range encs {
		for j := range encs {
			a, b := encs[i], encs[j]
			want := cmpVersions(a.s, b.s)
			w.Inc("version_pairs")
			w.Evals++
			pa, pb := versionParts(a.s), versionParts(b.s)
			nontrivial := len(pa) != len(pb)
			if nontrivial {
				w.Inc("version_pairs_count_differs")
			}
			for k := 0; k+1 < len(pa) && k+1 < len(pb); k++ {
				if pa[k] != pb[k] && (pa[k+1] == 9999 || pb[k+1] == 9999 || pa[k+1] == 0 || pb[k+1] == 0) {
					nontrivial = true
					w.Inc("version_pairs_carry")
					break
				}
			}
			if nontrivial && (i+j)%7 == 0 {
				w.Nontrivial(a.s, b.s, fmt.Sprint(n))
			}
			if sign(a.v, b.v) != want {
				w.Fail("version-order-not-preserved", "versions %q and %q (valid length %d, %s): component-wise comparison gives %d but the encodings %d and %d compare as %d", a.s, b.s, nEff, alias, want, a.v, b.v, sign(a.v, b.v))
			}
		}
	}
	// a sample of pairs compared inside the engine
	for t := 0; t < 300 && len(encs) > 1; t++ {
		a, b := encs[r.Intn(len(encs))], encs[r.Intn(len(encs))]
		if t%3 == 0 {
			// neighbours in the set are more likely to be boundary pairs
			i := r.Intn(len(encs) - 1)
			a, b = encs[i], encs[i+1]
		}
		want := cmpVersions(a.s, b.s)
		arg := func(s string) string {
			if n != 0 {
				return fmt.Sprintf("(%s \"%s\" %d)", alias, s, n)
			}
			return fmt.Sprintf("(%s \"%s\")", alias, s)
		}
		for _, c := range []struct {
			op   string
			want bool
		}{{"<", want < 0}, {"=", want == 0}, {">", want > 0}, {"<=", want <= 0}} {
			src := fmt.Sprintf("(%s %s %s)", c.op, arg(a.s), arg(b.s))
			o := c19EvalSrc(w, src, []OptSet{OptNone, OptAll}[r.Intn(2)])
			w.Inc("version_engine_comparisons")
			if o.Err != nil || o.Panic != nil || o.V != c.want {
				w.Fail("version-comparison-wrong", "%s = %s, component-wise comparison says %v", src, o, c.want)
			}
		}
	}
}

func c19VersionRejections(w *W, r *rand.Rand) {
	bad := []string{}
	for _, b := range []string{"10000", "65536", "99999", "x", "", "1a", "a1", " 1", "1 ", "１", "1e3", "0x1", "99999999999999999999"} {
		for pos := 0; pos < 3; pos++ {
			parts := []string{"1", "2", "3"}
			parts[pos] = b
			bad = append(bad, strings.Join(parts, "."))
		}
		bad = append(bad, b)
	}
	bad = append(bad, "1..2", ".1", "1.", ".", "..", "1.2.")
	for _, alias := range []string{"version", "t_version", "to_version"} {
		for _, s := range bad {
			if strings.Contains(s, "\"") {
				continue
			}
			// the offending component must be within the first N
			parts := strings.Split(s, ".")
			for _, n := range []int{0, 1, 2, 3, 4} {
				nEff := n
				if n == 0 {
					nEff = 3
				}
				within := false
				for i := 0; i < nEff && i < len(parts); i++ {
					if _, ok := versionComponents(parts[i], 1); !ok {
						within = true
					}
				}
				if !within {
					continue
				}
				src := fmt.Sprintf("(%s \"%s\")", alias, s)
				if n != 0 {
					src = fmt.Sprintf("(%s \"%s\" %d)", alias, s, n)
				}
				for _, opts := range []OptSet{OptNone, OptAll} {
					o := c19EvalSrc(w, src, opts)
					w.Inc("version_rejections")
					if o.Panic != nil {
						w.Fail("panic/"+normPanic(o.Panic), "%s panicked: %v", src, o.Panic)
					} else if o.Err == nil {
						w.Fail("version-accepted-out-of-domain", "%s = %s; a component >= 10000 or non-numeric within the first %d components must be rejected", src, o, nEff)
					}
					// a rejected text leaves nothing behind: the next conversion of a short version reads its missing components as 0
					if w.Evals%3 == 0 {
						short := []string{"2", "7.1", "3"}[int(w.Evals/3)%3]
						n2 := 3 + int(w.Evals/7)%2
						comps, _ := versionComponents(short, n2)
						want := int64(0)
						for _, c := range comps {
							want = want*refVersionBase + c
						}
						src2 := fmt.Sprintf("(%s \"%s\" %d)", alias, short, n2)
						o2 := c19EvalSrc(w, src2, opts)
						w.Inc("conversions_after_a_rejection")
						if o2.Panic != nil || o2.Err != nil || !valEq(o2.V, want) {
							w.Fail("version-encoding-wrong/after-rejection", "%s = %s right after %s was rejected; the version with its missing components read as 0 encodes to %d", src2, o2, src, want)
						}
					}
				}
			}
		}
		for _, src := range []string{
			fmt.Sprintf("(%s \"1.2.3\" 0)", alias), fmt.Sprintf("(%s \"1.2.3\" 5)", alias), fmt.Sprintf("(%s \"1.2.3\" -1)", alias), fmt.Sprintf("(%s \"1.2.3\" 100)", alias),
			fmt.Sprintf("(%s \"1.2.3\" \"3\")", alias), fmt.Sprintf("(%s 123)", alias), fmt.Sprintf("(%s)", alias), fmt.Sprintf("(%s \"1\" 2 3)", alias), fmt.Sprintf("(%s true)", alias), fmt.Sprintf("(%s (1 2))", alias),
		} {
			o := c19EvalSrc(w, src, OptSet(r.Intn(16)))
			w.Inc("version_rejections")
			if o.Panic != nil {
				w.Fail("panic/"+normPanic(o.Panic), "%s panicked: %v", src, o.Panic)
			} else if o.Err == nil {
				w.Fail("version-accepted-out-of-domain", "%s = %s; must be rejected (valid length outside 1..4, wrong type or count)", src, o)
			}
		}
	}
}

// c19ForeignLengths: the valid-length argument may reach the operator as a Go integer that is not an int64 (a plain int
// in ConstantMap, the result of a registered operator): outside 1..4 it is rejected like an int64 would be; inside
// 1..4 it is either rejected (as a type error) or gives the encoding that int64 length gives.
func c19ForeignLengths(w *W, r *rand.Rand) {
	lens := []interface{}{int(0), int(5), int(-1), int(100), int32(7), uint8(0), int(3), int(4), int32(2), uint8(1), int64(5), int64(0)}
	for _, alias := range []string{"version", "t_version", "to_version"} {
		for _, l := range lens {
			for _, v := range []string{"900.0.0.0.0", "1000.0.0.0.0", "1.2.3", "1.2.3.4.5.6"} {
				cc := buildConfig(CaseCfg{Opts: OptSet(r.Intn(16)), Consts: map[string]interface{}{"PARTS": l}}, nil)
				src := fmt.Sprintf("(%s \"%s\" PARTS)", alias, v)
				e, co := compileGuard(cc, src)
				w.Evals++
				w.Inc("version_foreign_length_probes")
				if co.Panic != nil {
					w.Fail("panic/"+normPanic(co.Panic), "%s panicked at compile time: %v", src, co.Panic)
					continue
				}
				o := co
				if co.Err == nil {
					o, _ = callExpr(e, CallEval, &RecFetcher{Vals: map[string]interface{}{}}, nil, false)
				}
				n := reflect.ValueOf(l)
				var lv int64
				if n.Kind() == reflect.Uint8 {
					lv = int64(n.Uint())
				} else {
					lv = n.Int()
				}
				switch {
				case o.Panic != nil:
					w.Fail("panic/"+normPanic(o.Panic), "%s with PARTS=%T(%v) panicked: %v", src, l, l, o.Panic)
				case lv < 1 || lv > 4:
					if o.Err == nil {
						w.Fail("version-accepted-out-of-domain", "%s with PARTS=%T(%v) = %s; a valid length outside 1..4 must be rejected whatever integer type carries it", src, l, l, o)
					}
				case o.Err == nil:
					ref := c19EvalSrc(w, fmt.Sprintf("(%s \"%s\" %d)", alias, v, lv), OptNone)
					if ref.Err != nil || !valEq(ref.V, o.V) {
						w.Fail("version-encoding-wrong", "%s with PARTS=%T(%v) = %s, but with the literal length %d it gives %s", src, l, l, o, lv, ref)
					}
				}
			}
		}
	}
}

type instant struct{ y, mo, d, h, mi, s int }

func (t instant) unix() int64 {
	return daysFromCivil(int64(t.y), int64(t.mo), int64(t.d))*86400 + int64(t.h)*3600 + int64(t.mi)*60 + int64(t.s)
}

func c19Instants(r *rand.Rand) []instant {
	var ts []instant
	years := []int{1, 4, 100, 400, 1582, 1600, 1899, 1900, 1969, 1970, 1971, 1999, 2000, 2001, 2020, 2021, 2038, 2100, 9999}
	for _, y := range years {
		ts = append(ts, instant{y, 1, 1, 0, 0, 0}, instant{y, 12, 31, 23, 59, 59}, instant{y, 2, 28, 23, 59, 59}, instant{y, 3, 1, 0, 0, 0}, instant{y, 6, 30, 12, 0, 0}, instant{y, 7, 1, 0, 0, 1})
		if isLeap(int64(y)) {
			ts = append(ts, instant{y, 2, 29, 0, 0, 0}, instant{y, 2, 29, 23, 59, 59})
		}
	}
	for i := 0; i < 60; i++ {
		y := 1 + r.Intn(9999)
		mo := 1 + r.Intn(12)
		ts = append(ts, instant{y, mo, 1 + r.Intn(int(daysIn(int64(y), int64(mo)))), r.Intn(24), r.Intn(60), r.Intn(60)})
	}
	return ts
}

func c19Dates(w *W, r *rand.Rand, idx int) {
	ts := c19Instants(r)
	type obs struct {
		t    instant
		v    int64
		text string
	}
	var all []obs
	encode := func(src string, want int64, what string) (int64, bool) {
		o := c19EvalSrc(w, src, []OptSet{OptNone, OptAll}[r.Intn(2)])
		w.Inc("date_encodings")
		if o.Panic != nil {
			w.Fail("panic/"+normPanic(o.Panic), "%s panicked: %v", src, o.Panic)
			return 0, false
		}
		v, ok := o.V.(int64)
		if o.Err != nil || !ok {
			w.Fail("date-rejected-in-domain", "%s gave %s; %s must encode to %d", src, o, what, want)
			return 0, false
		}
		if v != want {
			w.Fail("date-encoding-wrong", "%s = %d, UTC Unix seconds computed independently = %d (%s)", src, v, want, what)
			return v, false
		}
		return v, true
	}
	for _, t := range ts {
		if t.mo == 2 && t.d == 29 {
			w.Inc("date_leap_days")
		}
		dateOnly := instant{t.y, t.mo, t.d, 0, 0, 0}
		dtxt := fmt.Sprintf("%04d-%02d-%02d", t.y, t.mo, t.d)
		dttxt := fmt.Sprintf("%04d-%02d-%02d %02d:%02d:%02d", t.y, t.mo, t.d, t.h, t.mi, t.s)
		us := fmt.Sprintf("%02d/%02d/%04d", t.mo, t.d, t.y)
		// default layouts through every alias
		for _, a := range []string{"date", "to_date", "td_date"} {
			w.Inc("alias_" + a)
			if v, ok := encode(fmt.Sprintf("(%s \"%s\")", a, dtxt), dateOnly.unix(), "date "+dtxt); ok {
				all = append(all, obs{dateOnly, v, dtxt})
			}
		}
		for _, a := range []string{"datetime", "to_datetime", "td_time"} {
			w.Inc("alias_" + a)
			if v, ok := encode(fmt.Sprintf("(%s \"%s\")", a, dttxt), t.unix(), "datetime "+dttxt); ok {
				all = append(all, obs{t, v, dttxt})
			}
		}
		// custom layouts are honoured: the same instant must encode equal
		for _, a := range []string{"t_date", "date", "to_date"} {
			w.Inc("alias_" + a)
			encode(fmt.Sprintf("(%s \"%s\" \"01/02/2006\")", a, us), dateOnly.unix(), "US layout "+us)
			w.Inc("date_same_instant_pairs")
			// layouts edged by white space (a log prefix, a line read with its line break): the white space is part of
			// the layout - the text must carry it
			if t.s%4 == 0 {
				encode(fmt.Sprintf("(%s \"\t%s\" \"\t2006-01-02\")", a, dtxt), dateOnly.unix(), "tab-prefixed layout")
				encode(fmt.Sprintf("(%s \"%s\n\" \"2006-01-02\n\")", a, dtxt), dateOnly.unix(), "layout ending in a line break")
				c19ExpectErr(w, fmt.Sprintf("(%s \"%s\" \"\t2006-01-02\")", a, dtxt), r, "date_layout_whitespace_rejections", "a text without the tab its layout starts with")
				c19ExpectErr(w, fmt.Sprintf("(%s \"%s\" \"2006-01-02\n\")", a, dtxt), r, "date_layout_whitespace_rejections", "a text without the line break its layout ends with")
				w.Inc("date_layouts_edged_by_whitespace")
			}
			if t.d <= 12 {
				// the same text read day-first is another day
				swapped := instant{t.y, t.d, t.mo, 0, 0, 0}
				encode(fmt.Sprintf("(%s \"%s\" \"02/01/2006\")", a, us), swapped.unix(), "day-first layout "+us)
				w.Inc("date_same_text_other_layout")
			}
		}
		for _, a := range []string{"t_time", "datetime", "to_datetime"} {
			w.Inc("alias_" + a)
			// RFC3339 with zone offsets: the same instant written in another zone
			for _, off := range []int{0, 2 * 60, -(5*60 + 30), 14 * 60, -12 * 60} {
				local := t.unix() + int64(off)*60
				days := local / 86400
				rem := local % 86400
				if rem < 0 {
					rem += 86400
					days--
				}
				y, mo, d := civilFromDays(days)
				if y < 1 || y > 9999 {
					continue
				}
				zone := "Z"
				if off != 0 {
					sgn := "+"
					o := off
					if o < 0 {
						sgn = "-"
						o = -o
					}
					zone = fmt.Sprintf("%s%02d:%02d", sgn, o/60, o%60)
				}
				txt := fmt.Sprintf("%04d-%02d-%02dT%02d:%02d:%02d%s", y, mo, d, rem/3600, rem%3600/60, rem%60, zone)
				encode(fmt.Sprintf("(%s \"%s\" \"2006-01-02T15:04:05Z07:00\")", a, txt), t.unix(), "RFC3339 "+txt)
				w.Inc("date_same_instant_pairs")
			}
			// a layout with the fields in another order
			txt := fmt.Sprintf("%02d:%02d:%02d %02d.%02d.%04d", t.h, t.mi, t.s, t.d, t.mo, t.y)
			encode(fmt.Sprintf("(%s \"%s\" \"15:04:05 02.01.2006\")", a, txt), t.unix(), "custom layout "+txt)
			// texts the layout language accepts although they are not what formatting with the layout would print:
			// a zero offset written +00:00/-00:00, a fraction of a second after the seconds field (dropped), month
			// names in any letter case, a weekday name that is not checked against the date
			zero := []string{"+00:00", "-00:00"}[r.Intn(2)]
			rfc := fmt.Sprintf("%04d-%02d-%02dT%02d:%02d:%02d", t.y, t.mo, t.d, t.h, t.mi, t.s)
			encode(fmt.Sprintf("(%s \"%s%s\" \"2006-01-02T15:04:05Z07:00\")", a, rfc, zero), t.unix(), "RFC3339 with zero offset "+zero)
			frac := []string{".5", ".250", ".999999999", ",75", ".000"}[r.Intn(5)]
			encode(fmt.Sprintf("(%s \"%s%sZ\" \"2006-01-02T15:04:05Z07:00\")", a, rfc, frac), t.unix(), "RFC3339 with fraction "+frac)
			if a != "t_time" {
				encode(fmt.Sprintf("(%s \"%s%s\")", a, dttxt, frac), t.unix(), "default layout with fraction "+frac)
			}
			mon := []string{"Jan", "Feb", "Mar", "Apr", "May", "Jun", "Jul", "Aug", "Sep", "Oct", "Nov", "Dec"}[t.mo-1]
			switch r.Intn(3) {
			case 0:
				mon = strings.ToUpper(mon)
			case 1:
				mon = strings.ToLower(mon)
			}
			wd := []string{"Mon", "Tue", "Wed", "Thu", "Fri", "Sat", "Sun"}[r.Intn(7)]
			named := fmt.Sprintf("%s %s %d %04d %02d:%02d:%02d", wd, mon, t.d, t.y, t.h, t.mi, t.s)
			encode(fmt.Sprintf("(%s \"%s\" \"Mon Jan 2 2006 15:04:05\")", a, named), t.unix(), "named month/weekday "+named)
			w.Count("date_noncanonical_texts", 4)
		}
	}
	// order preservation over all pairs (and a sample inside the engine)
	for i := range all {
		for j := range all {
			a, b := all[i], all[j]
			ua, ub := a.t.unix(), b.t.unix()
			w.Evals++
			d := ua - ub
			if d < 0 {
				d = -d
			}
			if d < 86400 || a.t.mo != b.t.mo && d < 3*86400 {
				w.Inc("date_pairs_close")
				if (i+j)%5 == 0 {
					w.Nontrivial(a.text, b.text)
				}
			}
			if (ua < ub) != (a.v < b.v) || (ua == ub) != (a.v == b.v) {
				w.Fail("date-order-not-preserved", "%s and %s: chronological order and encoded order (%d, %d) differ", a.text, b.text, a.v, b.v)
			}
		}
	}
	for k := 0; k < 100 && len(all) > 1; k++ {
		a, b := all[r.Intn(len(all))], all[r.Intn(len(all))]
		mk := func(o obs) string {
			if len(o.text) == 10 {
				return fmt.Sprintf("(date \"%s\")", o.text)
			}
			return fmt.Sprintf("(datetime \"%s\")", o.text)
		}
		src := fmt.Sprintf("(< %s %s)", mk(a), mk(b))
		o := c19EvalSrc(w, src, OptSet(r.Intn(16)))
		if o.Err != nil || o.V != (a.t.unix() < b.t.unix()) {
			w.Fail("date-comparison-wrong", "%s = %s", src, o)
		}
	}
	w.Sample("dates", fmt.Sprintf("%d instants, e.g. (datetime %q) -> %d", len(ts), all[len(all)/2].text, all[len(all)/2].v))
	// unparsable text is an error
	badDates := []string{"", "2021", "2021-13-01", "2021-00-10", "2021-01-32", "2021-02-30", "2021-02-29", "1900-02-29", "2021-1-1", "21-01-01", "2021/01/01", "2021-01-01x", "x2021-01-01", "abcd-ef-gh", "2021-01-01 00:00:00", " 2021-01-01", "2021-01-01 "}
	for _, a := range []string{"date", "to_date", "td_date"} {
		for _, s := range badDates {
			c19ExpectErr(w, fmt.Sprintf("(%s \"%s\")", a, s), r, "date_rejections", "unparsable date text")
		}
	}
	badTimes := []string{"", "2021-01-01", "2021-01-01 24:00:00", "2021-01-01 23:60:00", "2021-01-01 23:59:60", "2021-01-01T00:00:00", "2021-02-30 00:00:00", "2021-01-01 0:0:0", "2021-01-01 00:00", "garbage"}
	for _, a := range []string{"datetime", "to_datetime", "td_time"} {
		for _, s := range badTimes {
			c19ExpectErr(w, fmt.Sprintf("(%s \"%s\")", a, s), r, "date_rejections", "unparsable datetime text")
		}
	}
	for _, src := range []string{
		`(t_date "2021-01-01" "01/02/2006")`, `(t_date "13/01/2021" "01/02/2006")`, `(t_time "2021-01-01T00:00:00" "2006-01-02T15:04:05Z07:00")`, `(t_date "01/02/2021")`, `(t_time "x")`,
		`(date 20210101)`, `(date "2021-01-01" 5)`, `(date)`, `(date "2021-01-01" "2006-01-02" "x")`, `(td_date "2021-01-01" "2006-01-02")`, `(td_time)`, `(datetime true)`, `(t_time "2021" 2006)`,
	} {
		c19ExpectErr(w, src, r, "date_rejections", "malformed date call")
	}
}

func c19ExpectErr(w *W, src string, r *rand.Rand, counter, what string) {
	o := c19EvalSrc(w, src, OptSet(r.Intn(16)))
	w.Inc(counter)
	if o.Panic != nil {
		w.Fail("panic/"+normPanic(o.Panic), "%s panicked: %v", src, o.Panic)
	} else if o.Err == nil {
		w.Fail("date-accepted-unparsable", "%s = %s; %s must be an error", src, o, what)
	}
}

// civilFromDays: inverse of daysFromCivil.
func civilFromDays(z int64) (y, m, d int64) {
	z += 719468
	var era int64
	if z >= 0 {
		era = z / 146097
	} else {
		era = (z - 146096) / 146097
	}
	doe := z - era*146097
	yoe := (doe - doe/1460 + doe/36524 - doe/146096) / 365
	y = yoe + era*400
	doy := doe - (365*yoe + yoe/4 - yoe/100)
	mp := (5*doy + 2) / 153
	d = doy - (153*mp+2)/5 + 1
	if mp < 10 {
		m = mp + 3
	} else {
		m = mp - 9
	}
	if m <= 2 {
		y++
	}
	return
}
