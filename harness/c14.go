package main

// C14 — whitespace, comments and IndentByParentheses never change meaning.

import (
	"fmt"
	"math/rand"
	"strings"

	"github.com/onheap/eval"
)

// every separator class (all satisfy unicode.IsSpace)
var c14Separators = []struct {
	name string
	s    string
}{
	{"space", " "}, {"tab", "\t"}, {"lf", "\n"}, {"cr", "\r"}, {"crlf", "\r\n"}, {"vt", "\v"}, {"ff", "\f"},
	{"nel", "\u0085"}, {"nbsp", "\u00a0"}, {"ogham", "\u1680"}, {"enquad", "\u2000"}, {"emspace", "\u2003"}, {"hairspace", "\u200a"},
	{"linesep", "\u2028"}, {"parasep", "\u2029"}, {"nnbsp", "\u202f"}, {"mmsp", "\u205f"}, {"ideographic", "\u3000"},
}

var c14Comments = []string{
	"; c", ";", ";; note", "; (unbalanced", "; \"quote", "; ) ]", ";;;; optimize:false", ";;;; reordering:false, constant_folding:false", "; ;;;; x", ";\t", "; trailing  ", "; λ 注释", ";;;; bogus",
	// a carriage return does not end a comment: only the line feed does
	"; a\rb", "; old mac\r(+ 1 2) 5", ";\r\r 7 )", "; crlf\r", "; x\r;;;; optimize:false",
}

func init() {
	register(&Prop{
		ID: "C14",
		Rule: "Programs from all strata in prefix and infix notation (string literals from the C13 pool). Re-layouts built from the token sequence of an independent lexer: minimal spacing, random runs of every Unicode separator class, " +
			"comments (incl. directive-looking ones, quotes, parentheses) inserted between any two tokens after the first, formatter output and formatter applied twice. Each re-layout must lex (independently) to the same tokens, compile to a program with the same Dump text and the same results on every binding as the original; " +
			"a ';;;;' comment after the first token must not change the options. IndentByParentheses output must have exactly the tokens and comments of its input (also for mutated, unparseable inputs) and compile to the same program. " +
			"A case is non-trivial when the re-layout differs from the source in >=3 positions and contains a comment or non-ASCII space; distinct = distinct re-layout text.",
		Assumptions: []string{
			"independent lexer sexpr.go written from the token rules (separators = unicode.IsSpace, ( ) [ ] , single-character tokens, ';' comment to end of line at token start, '\"' raw string at token start)",
			"comments are compared up to trailing white space",
		},
		NumCases: func(tier string) int {
			if tier == "thorough" {
				return 6000000
			}
			return 150000
		},
		Run: c14Run,
		Floors: func(m *Merged, tier string) []string {
			var u []string
			for _, s := range c14Separators {
				if m.C("sep_"+s.name) == 0 {
					u = append(u, "separator class never used: "+s.name)
				}
			}
			if m.C("formatter_inputs") < 1000 {
				u = append(u, "formatter on fewer than 1000 inputs")
			}
			for _, c := range []string{"relayout_minimal", "relayout_random_ws", "relayout_comments", "relayout_directive_after_first", "formatter_unparseable_inputs", "infix_programs", "formatter_string_sensitive", "formatter_glued_literal_inputs", "formatter_arbitrary_inputs_that_compile"} {
				if m.C(c) == 0 {
					u = append(u, c+" = 0")
				}
			}
			if len(u) > 6 {
				u = append(u[:6], fmt.Sprintf("... and %d more", len(u)-6))
			}
			return u
		},
	})
}

func tokText(t Tok) string {
	if t.Kind == TkString {
		return `"` + t.Text + `"`
	}
	return t.Text
}

// needSep: must two adjacent tokens be separated to stay two tokens?
func needSep(a, b Tok) bool {
	if a.Kind == TkComment {
		return true // a comment runs to the end of the line
	}
	if a.Kind == TkWord && (b.Kind == TkWord || b.Kind == TkString) {
		return true
	}
	return false
}

type relayouter struct {
	r *rand.Rand
	w *W
}

func (rl *relayouter) ws(min int) string {
	n := min
	if rl.r.Intn(3) == 0 {
		n += rl.r.Intn(4)
	}
	var sb strings.Builder
	for i := 0; i < n; i++ {
		s := c14Separators[rl.r.Intn(len(c14Separators))]
		if rl.r.Intn(2) == 0 {
			s = c14Separators[0]
		}
		rl.w.Inc("sep_" + s.name)
		sb.WriteString(s.s)
	}
	return sb.String()
}

// layout renders the tokens. mode: 0 minimal, 1 random whitespace, 2 whitespace + comments.
func (rl *relayouter) layout(toks []Tok, mode int) string {
	var sb strings.Builder
	if mode > 0 && rl.r.Intn(3) == 0 {
		sb.WriteString(rl.ws(1))
	}
	if mode == 2 && rl.r.Intn(3) == 0 {
		// an ordinary comment BEFORE the first token that merely mentions a directive (it does not start with ";;;;"): it
		// selects nothing
		c := []string{"; note: to see the raw tree use ;;;; optimize:false", ";; ---- ;;;; reordering:false", ";;; x ;;;; constant_folding:false, fast_evaluation:false",
			"; ;;;; optimize: false", ";a;;;;reduce_nesting:false", "; kept for reference: ;;;;optimize:false ;;;;"}[rl.r.Intn(6)]
		sb.WriteString(c + "\n")
		rl.w.Inc("relayout_comment_mentioning_a_directive_before_first_token")
	}
	for i, t := range toks {
		sb.WriteString(tokText(t))
		if t.Kind == TkComment {
			sb.WriteString("\n")
		}
		if i == len(toks)-1 {
			break
		}
		sep := ""
		if needSep(t, toks[i+1]) && t.Kind != TkComment {
			sep = " "
		}
		switch mode {
		case 0:
			sb.WriteString(sep)
		case 1:
			if sep != "" {
				sb.WriteString(rl.ws(1))
			} else if rl.r.Intn(2) == 0 {
				sb.WriteString(rl.ws(1))
			}
		default:
			if rl.r.Intn(4) == 0 {
				// a comment between two tokens: runs to the end of the line
				c := c14Comments[rl.r.Intn(len(c14Comments))]
				if strings.HasPrefix(c, ";;;;") {
					rl.w.Inc("relayout_directive_after_first")
				}
				pre := ""
				if rl.r.Intn(2) == 0 {
					pre = rl.ws(1)
				}
				sb.WriteString(pre + c + "\n")
				if rl.r.Intn(3) == 0 {
					sb.WriteString(rl.ws(1))
				}
			} else if sep != "" {
				sb.WriteString(rl.ws(1))
			} else if rl.r.Intn(2) == 0 {
				sb.WriteString(rl.ws(1))
			}
		}
	}
	if mode > 0 && rl.r.Intn(3) == 0 {
		sb.WriteString(rl.ws(1))
	}
	return sb.String()
}

func diffPositions(a, b string) int {
	ra, rb := []rune(a), []rune(b)
	n := 0
	for i := 0; i < len(ra) || i < len(rb); i++ {
		if i >= len(ra) || i >= len(rb) || ra[i] != rb[i] {
			n++
		}
	}
	return n
}

type c14Compiled struct {
	e    *eval.Expr
	err  error
	dump string
}

func c14Compile(w *W, cc *eval.Config, src string, what string) (c14Compiled, bool) {
	e, co := compileGuard(cc, src)
	w.Evals++
	if co.Panic != nil {
		w.Fail("compile-panic/"+normPanic(co.Panic)+"@"+panicSite(co.Stack), "Compile panicked on %s: %v\nsource: %q\n%s", what, co.Panic, firstN(src, 2000), co.Stack)
		return c14Compiled{}, false
	}
	c := c14Compiled{e: e, err: co.Err}
	if co.Err == nil {
		d, do := dumpGuard(e)
		if do.Panic != nil {
			w.Fail("dump-panic/"+normPanic(do.Panic), "Dump panicked: %v\nsource: %q", do.Panic, firstN(src, 2000))
			return c, false
		}
		c.dump = d
	}
	return c, true
}

func c14Run(w *W, idx int) {
	r := w.Rand(idx)
	rl := &relayouter{r: r, w: w}
	// the program
	var (
		tree  *Node
		src   string
		infix bool
		strat string
	)
	k := idx % 10
	switch {
	case k < 5:
		tree, strat = c13Tree(r, r.Intn(8))
		if r.Intn(3) == 0 {
			// variable names of non-ASCII letters (several bytes per character)
			ren := map[string]string{"b0": "наличие", "b1": "größe.ok", "b2": "日本語", "b3": "ünï", "b4": "π", "i0": "счёт", "i1": "número", "s0": "имя"}
			tree.Walk(func(n *Node) {
				if n.Kind == KVar {
					if nn, ok := ren[n.Name]; ok {
						n.Name = nn
					}
				}
			})
			w.Inc("programs_with_non_ascii_variable_names")
		}
		src = tree.Prefix()
	case k < 8:
		g := stratumByName("mixed").Make(r)
		g.StrPool = c13StrPool(r)
		tree = toInfixable(g.Root(1 + r.Intn(4)))
		src = tree.Infix(r, r.Intn(2) == 0)
		infix = true
		strat = "infix"
		w.Inc("infix_programs")
	default:
		// formatter on arbitrary (mostly unparseable) inputs: token preservation only
		var base string
		switch r.Intn(3) {
		case 0:
			t, _ := c13Tree(r, r.Intn(8))
			base = mutateSource(r, t.Prefix(), w)
		case 1:
			// a well-formed program whose string literals are glued to the token before them (no separator): whatever
			// the lexer makes of that, the formatter must make the same of it
			t, _ := c13Tree(r, r.Intn(8))
			base = t.Prefix()
			for _, sep := range []string{" \"", "\n\""} {
				if r.Intn(4) != 0 {
					base = strings.ReplaceAll(base, sep, "\"")
				}
			}
			w.Inc("formatter_glued_literal_inputs")
		default:
			base = fragmentSoup(r)
		}
		out, fine := c14Formatter(w, nil, base, false, "mutated")
		w.Inc("formatter_unparseable_inputs")
		if fine {
			// whatever Compile makes of the input, it makes the same of the formatted text
			cc := eval.NewConfig(eval.EnableUndefinedVariable)
			for n, op := range stdCustom {
				cc.OperatorMap[n] = wrapCustom(op, nil)
			}
			a, ok1 := c14Compile(w, cc, base, "an arbitrary input")
			b, ok2 := c14Compile(w, cc, out, "the formatted arbitrary input")
			if ok1 && ok2 {
				w.Inc("formatter_arbitrary_inputs_compiled_both_ways")
				if a.err == nil {
					w.Inc("formatter_arbitrary_inputs_that_compile")
				}
				if (a.err == nil) != (b.err == nil) || (a.err == nil && a.dump != b.dump) {
					w.Fail("formatting-changes-program/arbitrary-input", "Compile makes something else of the formatted text than of the input\ninput:  %q (%v)\noutput: %q (%v)\ndump before: %s\ndump after:  %s", firstN(base, 1500), a.err, firstN(out, 1500), b.err, oneLine(a.dump), oneLine(b.dump))
				}
			}
		}
		return
	}
	w.Inc("programs")
	w.Inc("programs_" + strat)
	toks, lerr := indepLex(src)
	if lerr != nil {
		w.Fail("harness/source-does-not-lex", "generated source does not lex: %v %q", lerr, src)
		return
	}
	opts := OptSet(r.Intn(16))
	cfg := cfgFor(tree, opts, r.Intn(2) == 0)
	cfg.Infix = infix
	cc := buildConfig(cfg, nil)
	orig, ok := c14Compile(w, cc, src, "the original source")
	if !ok {
		return
	}
	if orig.err != nil {
		if c09Expect(tree, cfg.Opts, 0) != 0 {
			return
		}
		w.Fail("compile-rejects-wellformed", "Compile rejected a well-formed program: %v\nsource: %q\nconfig: %s", orig.err, firstN(src, 2000), cfg)
		return
	}
	bs := genBindings(r, tree, 3, 0.05)
	origRes := make([]Outcome, len(bs))
	for i, b := range bs {
		origRes[i], _ = callExpr(orig.e, CallEval, fetcherFor(b, nil), nil, false)
	}
	w.Sample(strat, fmt.Sprintf("%q", firstN(src, 300)))

	check := func(kind, text string) {
		// sanity of the re-layout engine: same tokens under the independent lexer
		t2, err := indepLex(text)
		if err != nil || !toksEqual(toks, t2, false) {
			w.Fail("harness/relayout-changed-tokens", "re-layout engine changed the token sequence (%v)\nsource: %q\nrelayout: %q", err, src, text)
			return
		}
		w.Inc("relayout_" + kind)
		c, ok := c14Compile(w, cc, text, "a re-layout")
		if !ok {
			return
		}
		nonASCII := false
		for _, ch := range text {
			if ch > 127 {
				nonASCII = true
			}
		}
		if diffPositions(src, text) >= 3 && (strings.Contains(text, ";") || nonASCII) {
			w.Nontrivial(text)
		}
		if c.err != nil {
			w.Fail("relayout-does-not-compile/"+kind, "a re-layout with the same tokens does not compile: %v\nsource:   %q\nrelayout: %q\nconfig: %s", c.err, firstN(src, 1500), firstN(text, 1500), cfg)
			return
		}
		if c.dump != orig.dump {
			w.Fail("relayout-changes-program/"+kind, "a re-layout with the same tokens compiles to a different program\nsource:   %q\nrelayout: %q\nconfig: %s\ndump of source:   %s\ndump of relayout: %s", firstN(src, 1500), firstN(text, 1500), cfg, oneLine(orig.dump), oneLine(c.dump))
			return
		}
		for i, b := range bs {
			o, _ := callExpr(c.e, CallEval, fetcherFor(b, nil), nil, false)
			w.Evals++
			a := origRes[i]
			if (a.Err == nil) != (o.Err == nil) || (a.Err == nil && !valEq(a.V, o.V)) || (a.Panic == nil) != (o.Panic == nil) {
				w.Fail("relayout-changes-result/"+kind, "a re-layout evaluates differently: %s vs %s\nsource:   %q\nrelayout: %q\nbinding: %s", a, o, firstN(src, 1500), firstN(text, 1500), b)
			}
		}
	}
	check("minimal", rl.layout(toks, 0))
	check("random_ws", rl.layout(toks, 1))
	check("random_ws", rl.layout(toks, 1))
	check("comments", rl.layout(toks, 2))
	check("comments", rl.layout(toks, 2))

	// formatter
	c14Formatter(w, &c14FmtCtx{cc: cc, cfg: cfg, orig: orig, bs: bs, origRes: origRes}, src, true, strat)
	if idx%16 == 3 {
		c14RawBytes(w, r)
	}
	if r.Intn(2) == 0 {
		// formatter on a commented, irregular layout of the same program
		c14Formatter(w, &c14FmtCtx{cc: cc, cfg: cfg, orig: orig, bs: bs, origRes: origRes}, rl.layout(toks, 2), true, strat)
	}
}

type c14FmtCtx struct {
	cc      *eval.Config
	cfg     CaseCfg
	orig    c14Compiled
	bs      []Binding
	origRes []Outcome
}

func c14Formatter(w *W, fc *c14FmtCtx, in string, compiles bool, strat string) (string, bool) {
	w.Inc("formatter_inputs")
	var out string
	fo := guard(func() (eval.Value, error) { out = eval.IndentByParentheses(in); return nil, nil })
	w.Evals++
	if fo.Panic != nil {
		w.Fail("formatter-panic/"+normPanic(fo.Panic)+"@"+panicSite(fo.Stack), "IndentByParentheses panicked: %v\ninput: %q\n%s", fo.Panic, firstN(in, 2000), fo.Stack)
		return out, false
	}
	t1, e1 := indepLex(in)
	t2, e2 := indepLex(out)
	for _, t := range t1 {
		if t.Kind == TkString && strings.ContainsAny(t.Text, " ()[];\n\t") {
			w.Inc("formatter_string_sensitive")
			break
		}
	}
	if (e1 == nil) != (e2 == nil) || !toksEqual(t1, t2, true) {
		w.Fail("formatter-changes-tokens/"+strat, "IndentByParentheses output does not have the tokens and comments of its input\ninput:  %q\noutput: %q\ninput tokens:  %v (%v)\noutput tokens: %v (%v)", firstN(in, 1500), firstN(out, 1500), firstNToks(t1), e1, firstNToks(t2), e2)
		return out, false
	}
	// formatting the output again: tokens again preserved (formatter applied repeatedly)
	var out2 string
	fo2 := guard(func() (eval.Value, error) { out2 = eval.IndentByParentheses(out); return nil, nil })
	if fo2.Panic != nil {
		w.Fail("formatter-panic/"+normPanic(fo2.Panic)+"@"+panicSite(fo2.Stack), "IndentByParentheses panicked on its own output: %v\ninput: %q", fo2.Panic, firstN(out, 2000))
		return out, false
	}
	t3, e3 := indepLex(out2)
	if (e1 == nil) != (e3 == nil) || !toksEqual(t1, t3, true) {
		w.Fail("formatter-changes-tokens/twice", "IndentByParentheses applied twice does not keep the tokens and comments\ninput:  %q\nonce:   %q\ntwice:  %q", firstN(in, 1500), firstN(out, 1500), firstN(out2, 1500))
		return out, false
	}
	if out2 == out {
		w.Inc("formatter_fixed_point")
	} else {
		w.Inc("formatter_not_fixed_point")
	}
	if fc == nil || !compiles {
		return out, true
	}
	for _, text := range []string{out, out2} {
		c, ok := c14Compile(w, fc.cc, text, "formatter output")
		if !ok {
			return out, false
		}
		if c.err != nil {
			w.Fail("formatted-does-not-compile/"+strat, "formatter output does not compile: %v\ninput:  %q\noutput: %q", c.err, firstN(in, 1500), firstN(text, 1500))
			return out, false
		}
		if c.dump != fc.orig.dump {
			w.Fail("formatting-changes-program/"+strat, "formatting changed the compiled program\ninput:  %q\noutput: %q\ndump before: %s\ndump after:  %s", firstN(in, 1500), firstN(text, 1500), oneLine(fc.orig.dump), oneLine(c.dump))
			return out, false
		}
		for i, b := range fc.bs {
			o, _ := callExpr(c.e, CallEval, fetcherFor(b, nil), nil, false)
			w.Evals++
			a := fc.origRes[i]
			if (a.Err == nil) != (o.Err == nil) || (a.Err == nil && !valEq(a.V, o.V)) {
				w.Fail("formatting-changes-result/"+strat, "formatted text evaluates differently: %s vs %s\ninput:  %q\noutput: %q\nbinding: %s", a, o, firstN(in, 1500), firstN(text, 1500), b)
			}
		}
	}
	return out, true
}

func firstNToks(t []Tok) string {
	var s []string
	for i, x := range t {
		if i >= 40 {
			s = append(s, "…")
			break
		}
		s = append(s, fmt.Sprintf("%q", tokText(x)))
	}
	return strings.Join(s, " ")
}

// c14RawBytes: source text that is not valid UTF-8 (Latin-1 text, a truncated multi-byte character, binary keys) inside
// string literals, comments and words. Whatever the lexer makes of such bytes, it makes the same of them after the text
// went through the formatter and after a re-layout: same compile outcome, same Dump, same results.
func c14RawBytes(w *W, r *rand.Rand) {
	raw := []string{"caf\xe9", "\xff\xfe", "a\xc3", "\xe2\x82", "\x80", "ok\xf0\x9f", "\xc0\xaf", "x\xed\xa0\x80y"}
	pick := func() string { return raw[r.Intn(len(raw))] }
	srcs := []string{
		fmt.Sprintf(`(= s0 "%s")`, pick()),
		fmt.Sprintf(`(in s0 ("%s" "%s" "plain"))`, pick(), pick()),
		fmt.Sprintf(`(and (= "%s" "%s") b0) ; note %s`, pick(), pick(), pick()),
		fmt.Sprintf(`(or b0 ; %s`+"\n"+`  (!= s0 "%s"))`, pick(), pick()),
		fmt.Sprintf(`(= s0   "%s"  )`, pick()+" ( "+pick()),
	}
	src := srcs[r.Intn(len(srcs))]
	cfg := CaseCfg{Opts: OptSet(r.Intn(16)), VarNames: []string{"s0", "b0"}}
	cc := buildConfig(cfg, nil)
	orig, ok := c14Compile(w, cc, src, "a source with bytes that are not valid UTF-8")
	if !ok {
		return
	}
	w.Inc("sources_with_invalid_utf8")
	var bs []Binding
	for _, s0 := range []string{"caf\xe9", "caf\ufffd", "\ufffd\ufffd", "\xff\xfe", "plain", "a\xc3"} {
		bs = append(bs, Binding{Vals: map[string]interface{}{"s0": s0, "b0": r.Intn(2) == 0}})
	}
	var origRes []Outcome
	if orig.err == nil {
		for _, b := range bs {
			o, _ := callExpr(orig.e, CallEval, fetcherFor(b, nil), nil, false)
			w.Evals++
			origRes = append(origRes, o)
		}
	}
	var out string
	fo := guard(func() (eval.Value, error) { out = eval.IndentByParentheses(src); return nil, nil })
	if fo.Panic != nil {
		w.Fail("formatter-panic/"+normPanic(fo.Panic)+"@"+panicSite(fo.Stack), "IndentByParentheses panicked: %v\ninput: %q", fo.Panic, src)
		return
	}
	for _, text := range []string{out, "  " + src + " ", "\t" + src + "\n", strings.Replace(src, "(", "(\n ", 1)} {
		c, ok := c14Compile(w, cc, text, "a formatted / re-laid-out source with bytes that are not valid UTF-8")
		if !ok {
			return
		}
		if (c.err == nil) != (orig.err == nil) {
			w.Fail("formatting-changes-program/raw-bytes", "compile outcome differs: %v for the source, %v for its formatted / re-laid-out text\nsource: %q\ntext:   %q", orig.err, c.err, src, text)
			return
		}
		if c.err != nil {
			continue
		}
		if c.dump != orig.dump {
			w.Fail("formatting-changes-program/raw-bytes", "formatting (or re-spacing) a source whose string literals hold bytes that are not valid UTF-8 changed the compiled program\nsource: %q\ntext:   %q\ndump before: %q\ndump after:  %q", src, text, oneLine(orig.dump), oneLine(c.dump))
			return
		}
		for i, b := range bs {
			o, _ := callExpr(c.e, CallEval, fetcherFor(b, nil), nil, false)
			w.Evals++
			if !outcomeEq(origRes[i], o) {
				w.Fail("formatting-changes-result/raw-bytes", "formatted text evaluates differently: %s vs %s\nsource: %q\ntext:   %q\nbinding: %s", origRes[i], o, src, text, b)
				return
			}
		}
	}
}
