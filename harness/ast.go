package main

// Harness-side expression trees. They are the single source from which the
// prefix text, the infix text and the reference value of a case are derived;
// they share nothing with the engine's AST or flat program.

import (
	"fmt"
	"sort"
	"strconv"
	"strings"
)

type Ty int

const (
	TBool Ty = iota
	TInt
	TStr
	TIList
	TSList
	TAny
)

type Kind int

const (
	KLit Kind = iota
	KVar
	KOp
	KIf
)

// Node is a harness expression tree node.
type Node struct {
	Kind  Kind
	Name  string      // variable or operator name
	Val   interface{} // literal value: bool, int64, string, []int64, []string
	Const string      // when non-empty the literal is rendered as this ConstantMap name
	Ch    []*Node
	Ty    Ty
}

func Lit(v interface{}) *Node {
	n := &Node{Kind: KLit, Val: v}
	switch v.(type) {
	case bool:
		n.Ty = TBool
	case int64:
		n.Ty = TInt
	case string:
		n.Ty = TStr
	case []int64:
		n.Ty = TIList
	case []string:
		n.Ty = TSList
	default:
		panic(fmt.Sprintf("Lit: unsupported %T", v))
	}
	return n
}

func ConstRef(name string, v interface{}) *Node { n := Lit(v); n.Const = name; return n }
func Var(name string, ty Ty) *Node              { return &Node{Kind: KVar, Name: name, Ty: ty} }
func Op(name string, ty Ty, ch ...*Node) *Node  { return &Node{Kind: KOp, Name: name, Ch: ch, Ty: ty} }
func If(c, a, b *Node) *Node                    { return &Node{Kind: KIf, Name: "if", Ch: []*Node{c, a, b}, Ty: a.Ty} }

func isAndName(s string) bool { return s == "and" || s == "&" || s == "&&" }
func isOrName(s string) bool  { return s == "or" || s == "|" || s == "||" }

func (n *Node) IsAndOr() bool { return n.Kind == KOp && (isAndName(n.Name) || isOrName(n.Name)) }
func (n *Node) IsLeaf() bool  { return n.Kind == KLit || n.Kind == KVar }

// canonical operator names (alias normalisation)
var aliasCanon = map[string]string{
	"+": "add", "-": "sub", "*": "mul", "/": "div", "%": "mod",
	"&": "and", "&&": "and", "|": "or", "||": "or", "!": "not",
	"=": "eq", "==": "eq", "!=": "ne", ">": "gt", "<": "lt", ">=": "ge", "<=": "le",
	"to_date": "date", "to_datetime": "datetime", "to_version": "version",
}

func canonName(s string) string {
	if c, ok := aliasCanon[s]; ok {
		return c
	}
	return s
}

// aliases of each canonical name (incl. itself)
var aliasesOf = map[string][]string{
	"add": {"add", "+"}, "sub": {"sub", "-"}, "mul": {"mul", "*"}, "div": {"div", "/"}, "mod": {"mod", "%"},
	"and": {"and", "&", "&&"}, "or": {"or", "|", "||"}, "not": {"not", "!"}, "xor": {"xor"},
	"eq": {"eq", "=", "=="}, "ne": {"ne", "!="}, "gt": {"gt", ">"}, "lt": {"lt", "<"}, "ge": {"ge", ">="}, "le": {"le", "<="},
	"between": {"between"}, "in": {"in"}, "overlap": {"overlap"},
	"date": {"date", "to_date"}, "datetime": {"datetime", "to_datetime"},
	"t_time": {"t_time"}, "t_date": {"t_date"}, "td_time": {"td_time"}, "td_date": {"td_date"},
	"version": {"version", "to_version"}, "t_version": {"t_version"},
}

// every built-in name the engine knows (used for coverage floors)
func allBuiltinNames() []string {
	var r []string
	for _, as := range aliasesOf {
		r = append(r, as...)
	}
	sort.Strings(r)
	return r
}

func litText(v interface{}) string {
	switch x := v.(type) {
	case bool:
		if x {
			return "true"
		}
		return "false"
	case int64:
		return strconv.FormatInt(x, 10)
	case string:
		return `"` + x + `"`
	case []int64:
		s := make([]string, len(x))
		for i, e := range x {
			s[i] = strconv.FormatInt(e, 10)
		}
		return "(" + strings.Join(s, " ") + ")"
	case []string:
		s := make([]string, len(x))
		for i, e := range x {
			s[i] = `"` + e + `"`
		}
		return "(" + strings.Join(s, " ") + ")"
	}
	panic(fmt.Sprintf("litText: unsupported %T", v))
}

// Prefix renders the tree in prefix (S-expression) notation.
func (n *Node) Prefix() string {
	var sb strings.Builder
	n.prefix(&sb)
	return sb.String()
}

func (n *Node) prefix(sb *strings.Builder) {
	switch n.Kind {
	case KLit:
		if n.Const != "" {
			sb.WriteString(n.Const)
		} else {
			sb.WriteString(litText(n.Val))
		}
	case KVar:
		sb.WriteString(n.Name)
	default:
		sb.WriteByte('(')
		sb.WriteString(n.Name)
		for _, c := range n.Ch {
			sb.WriteByte(' ')
			c.prefix(sb)
		}
		sb.WriteByte(')')
	}
}

// Size is the number of nodes of the tree.
func (n *Node) Size() int {
	s := 1
	for _, c := range n.Ch {
		s += c.Size()
	}
	return s
}

func (n *Node) Depth() int {
	d := 0
	for _, c := range n.Ch {
		if x := c.Depth(); x > d {
			d = x
		}
	}
	return d + 1
}

// OpCount counts operator and if nodes.
func (n *Node) OpCount() int {
	s := 0
	if n.Kind == KOp || n.Kind == KIf {
		s = 1
	}
	for _, c := range n.Ch {
		s += c.OpCount()
	}
	return s
}

// Vars collects variable names with their static type, in first-occurrence order.
func (n *Node) Vars() ([]string, map[string]Ty) {
	m := map[string]Ty{}
	var order []string
	var walk func(*Node)
	walk = func(x *Node) {
		if x.Kind == KVar {
			if _, ok := m[x.Name]; !ok {
				m[x.Name] = x.Ty
				order = append(order, x.Name)
			}
		}
		if name, ok := remoteVar(x); ok {
			// (crem "name"): the operator reads that variable through the context it is handed
			if _, seen := m[name]; !seen {
				m[name] = x.Ty
				order = append(order, name)
			}
			return
		}
		for _, c := range x.Ch {
			walk(c)
		}
	}
	walk(n)
	return order, m
}

// Consts collects ConstantMap names used by the tree.
func (n *Node) Consts(m map[string]interface{}) {
	if n.Kind == KLit && n.Const != "" {
		m[n.Const] = n.Val
	}
	for _, c := range n.Ch {
		c.Consts(m)
	}
}

func (n *Node) Walk(f func(*Node)) {
	f(n)
	for _, c := range n.Ch {
		c.Walk(f)
	}
}

func (n *Node) Clone() *Node {
	c := *n
	c.Ch = make([]*Node, len(n.Ch))
	for i, x := range n.Ch {
		c.Ch[i] = x.Clone()
	}
	return &c
}

// valEq compares two engine/reference values. Empty lists of either element
// type are equal to each other only if both are lists of the same Go type or
// both are empty (the empty literal is typeless).
func valEq(a, b interface{}) bool {
	switch x := a.(type) {
	case nil:
		return b == nil
	case bool:
		y, ok := b.(bool)
		return ok && x == y
	case int64:
		y, ok := b.(int64)
		return ok && x == y
	case string:
		y, ok := b.(string)
		return ok && x == y
	case []int64:
		switch y := b.(type) {
		case []int64:
			if len(x) != len(y) {
				return false
			}
			for i := range x {
				if x[i] != y[i] {
					return false
				}
			}
			return true
		case []string:
			return len(x) == 0 && len(y) == 0
		}
		return false
	case []string:
		switch y := b.(type) {
		case []string:
			if len(x) != len(y) {
				return false
			}
			for i := range x {
				if x[i] != y[i] {
					return false
				}
			}
			return true
		case []int64:
			return len(x) == 0 && len(y) == 0
		}
		return false
	case dneT:
		_, ok := b.(dneT)
		return ok
	}
	if x, ok := copyVal(a).([]interface{}); ok {
		y, ok := copyVal(b).([]interface{})
		if !ok || len(x) != len(y) {
			return false
		}
		for i := range x {
			if !valEq(x[i], y[i]) {
				return false
			}
		}
		return true
	}
	// anything else: identical formatting and type
	return fmt.Sprintf("%T:%v", a, a) == fmt.Sprintf("%T:%v", b, b)
}

func valText(v interface{}) string {
	switch x := v.(type) {
	case nil:
		return "nil"
	case string:
		return strconv.Quote(x)
	case []string:
		s := make([]string, len(x))
		for i, e := range x {
			s[i] = strconv.Quote(e)
		}
		return "[]string{" + strings.Join(s, ",") + "}"
	case []int64:
		return fmt.Sprintf("[]int64%v", x)
	case int64:
		return strconv.FormatInt(x, 10)
	case bool:
		return strconv.FormatBool(x)
	case []interface{}:
		return "tuple" + argsText(x)
	}
	if t, ok := copyVal(v).([]interface{}); ok { // the engine's own []Value
		return "tuple" + argsText(t)
	}
	return fmt.Sprintf("%T(%v)", v, v)
}

// treeEq: structural equality, optionally normalising aliases.
func treeEq(a, b *Node, canon bool) bool {
	if a.Kind != b.Kind || len(a.Ch) != len(b.Ch) {
		return false
	}
	switch a.Kind {
	case KLit:
		if !valEq(a.Val, b.Val) {
			return false
		}
	default:
		an, bn := a.Name, b.Name
		if canon {
			an, bn = canonName(an), canonName(bn)
		}
		if an != bn {
			return false
		}
	}
	for i := range a.Ch {
		if !treeEq(a.Ch[i], b.Ch[i], canon) {
			return false
		}
	}
	return true
}

// remoteVar: is n the call (crem "name") of the context-reading operator? It stands for the variable of that name: the
// operator answers DNE while the context does not hold the variable and its value afterwards.
func remoteVar(n *Node) (string, bool) {
	if n.Kind == KOp && n.Name == "crem" && len(n.Ch) == 1 && n.Ch[0].Kind == KLit && n.Ch[0].Const == "" {
		if s, ok := n.Ch[0].Val.(string); ok {
			return s, true
		}
	}
	return "", false
}
