package main

import "sort"

func sortStrings(s []string) { sort.Strings(s) }
func sortInt64s(s []int64)   { sort.Slice(s, func(i, j int) bool { return s[i] < s[j] }) }

func minInt(a, b int) int {
	if a < b {
		return a
	}
	return b
}
