package main

// Typed random generator of well-formed expressions, with strata.

import (
	"fmt"
	"math"
	"math/rand"
	"sort"
	"strings"
	"sync"

	"github.com/onheap/eval"
)

// ---------------------------------------------------------------------------
// the harness's registered operators (pure; shared by engine registration and
// the reference)

func mkCustom() map[string]*CustomOp {
	ops := []*CustomOp{
		{Name: "cb", Fn: func(a []interface{}) (interface{}, error) { // bool identity
			if len(a) != 1 {
				return nil, ErrCustom
			}
			if _, ok := a[0].(bool); !ok {
				return nil, ErrCustom
			}
			return a[0], nil
		}},
		{Name: "ci", Fn: func(a []interface{}) (interface{}, error) { // a-b, fails when a == b
			if len(a) != 2 {
				return nil, ErrCustom
			}
			x, ok1 := a[0].(int64)
			y, ok2 := a[1].(int64)
			if !ok1 || !ok2 {
				return nil, ErrCustom
			}
			if x == y {
				return x, ErrCustom
			}
			return x - y, nil
		}},
		{Name: "cz", Fn: func(a []interface{}) (interface{}, error) { // zero-argument
			if len(a) != 0 {
				return nil, ErrCustom
			}
			return int64(42), nil
		}},
		// cfail fails the way much Go code does: a non-nil value next to the error (the engine hands both on unchanged)
		{Name: "cfail", Fn: func(a []interface{}) (interface{}, error) { return int64(-77), ErrCustom }},
		{Name: "cpos", Fn: func(a []interface{}) (interface{}, error) { // int -> bool
			if len(a) != 1 {
				return nil, ErrCustom
			}
			x, ok := a[0].(int64)
			if !ok {
				return nil, ErrCustom
			}
			return x > 0, nil
		}},
		{Name: "cpick", Fn: func(a []interface{}) (interface{}, error) { // (bool,int,int) -> int
			if len(a) != 3 {
				return nil, ErrCustom
			}
			b, ok := a[0].(bool)
			x, ok1 := a[1].(int64)
			y, ok2 := a[2].(int64)
			if !ok || !ok1 || !ok2 {
				return nil, ErrCustom
			}
			if b {
				return x, nil
			}
			return y, nil
		}},
		{Name: "cs", Fn: func(a []interface{}) (interface{}, error) { // string -> string
			if len(a) != 1 {
				return nil, ErrCustom
			}
			s, ok := a[0].(string)
			if !ok {
				return nil, ErrCustom
			}
			return s + "+", nil
		}},
	}
	// clen: the length of a string as a plain Go int - a value the engine does not normalise (operator results are
	// passed on as they are), so built-in operators reject it and eq compares it unequal to every int64
	ops = append(ops, &CustomOp{Name: "clen", Fn: func(a []interface{}) (interface{}, error) {
		if len(a) != 1 {
			return nil, ErrCustom
		}
		s, ok := a[0].(string)
		if !ok {
			return nil, ErrCustom
		}
		return len(s), nil
	}})
	// AND / Or: registered operators whose names are other letter cases of and/or. They are ordinary operators: every
	// operand is evaluated, then the operator is called (no short-circuit)
	ops = append(ops, &CustomOp{Name: "AND", Fn: func(a []interface{}) (interface{}, error) {
		res := true
		for _, x := range a {
			b, ok := x.(bool)
			if !ok {
				return nil, ErrCustom
			}
			res = res && b
		}
		return res, nil
	}})
	ops = append(ops, &CustomOp{Name: "Or", Fn: func(a []interface{}) (interface{}, error) {
		res := false
		for _, x := range a {
			b, ok := x.(bool)
			if !ok {
				return nil, ErrCustom
			}
			res = res || b
		}
		return res, nil
	}})
	// csum: the (wrapping) sum of an integer list - an operator over a list operand, usually a variable the caller binds
	// from a buffer of its own
	ops = append(ops, &CustomOp{Name: "csum", Fn: func(a []interface{}) (interface{}, error) {
		if len(a) != 1 {
			return nil, ErrCustom
		}
		switch l := a[0].(type) {
		case []int64:
			var s int64
			for _, x := range l {
				s += x
			}
			return s, nil
		case []string:
			if len(l) == 0 {
				return int64(0), nil // the empty list literal
			}
		}
		return nil, ErrCustom
	}})
	// _cid: a registered operator whose name does not start with a letter (zero arguments, like cz)
	ops = append(ops, &CustomOp{Name: "_cid", Fn: func(a []interface{}) (interface{}, error) {
		if len(a) != 0 {
			return nil, ErrCustom
		}
		return int64(41), nil
	}})
	// cmed: the median of its integer arguments, found by sorting the argument slice in place;
	// ctup/cmem: a tuple constructor and membership in such a tuple
	ops = append(ops, &CustomOp{Name: "cmed", MutatesArgs: true, Fn: func(a []interface{}) (interface{}, error) {
		if len(a) == 0 {
			return nil, ErrCustom
		}
		for _, x := range a {
			if _, ok := x.(int64); !ok {
				return nil, ErrCustom
			}
		}
		sort.Slice(a, func(i, j int) bool { return a[i].(int64) < a[j].(int64) })
		return a[len(a)/2], nil
	}})
	// (ctup returns a copy: the engine hands binary operators a buffer it reuses, so an operator must not keep the
	// slice it is handed - keeping it is outside the operator contract for every arity)
	ops = append(ops, &CustomOp{Name: "ctup", Fn: func(a []interface{}) (interface{}, error) {
		return append([]interface{}{}, a...), nil
	}})
	ops = append(ops, &CustomOp{Name: "cmem", Fn: func(a []interface{}) (interface{}, error) {
		if len(a) != 2 {
			return nil, ErrCustom
		}
		t, ok := a[1].([]interface{})
		if !ok {
			return nil, ErrCustom
		}
		for _, e := range t {
			if valEq(e, a[0]) { // total on every value a hostile binding can deliver
				return true, nil
			}
		}
		return false, nil
	}})
	// cself: a recursive rule - evaluates the very expression it occurs in once more, with a context of its own in which
	// b0 is false (the guard that ends the recursion), and returns that value
	ops = append(ops, &CustomOp{Name: "cself",
		Fn: func(a []interface{}) (interface{}, error) { return nil, ErrCustom },
		CtxFn: func(ctx interface{}, a []interface{}) (interface{}, error) {
			rf, ok := ctx.(*eval.Ctx).VariableFetcher.(*RecFetcher)
			if !ok || rf.Self == nil || len(a) != 0 {
				return nil, ErrCustom
			}
			vals := make(map[string]interface{}, len(rf.Vals))
			for k, v := range rf.Vals {
				vals[k] = v
			}
			vals["b0"] = false
			return rf.Self.Eval(&eval.Ctx{VariableFetcher: &RecFetcher{Vals: vals, Self: rf.Self}})
		}})
	// crem: reads the variable named by its argument through the context it is handed, the way an operator that wraps
	// a remote call does: DNE while the context does not hold the variable, its value afterwards
	ops = append(ops, &CustomOp{Name: "crem",
		Fn: func(a []interface{}) (interface{}, error) { return nil, ErrCustom },
		CtxFn: func(ctx interface{}, a []interface{}) (interface{}, error) {
			if len(a) != 1 {
				return nil, ErrCustom
			}
			name, ok := a[0].(string)
			if !ok {
				return nil, ErrCustom
			}
			c := ctx.(*eval.Ctx)
			k := eval.UndefinedVarKey
			if rf, ok := c.VariableFetcher.(*RecFetcher); ok && rf.Keys != nil {
				if reg, ok := rf.Keys[name]; ok {
					k = reg // the operator knows the registered key of the variable it reads
				}
			}
			if !c.Cached(k, name) {
				return eval.DNE, nil
			}
			return c.Get(k, name)
		}})
	// cnest: x + 3, where the 3 is obtained by evaluating another compiled expression on the SAME context
	// (a rule that evaluates a sub-rule), through TryEval and through Eval
	ops = append(ops, &CustomOp{Name: "cnest",
		Fn: func(a []interface{}) (interface{}, error) {
			if len(a) != 1 {
				return nil, ErrCustom
			}
			x, ok := a[0].(int64)
			if !ok {
				return nil, ErrCustom
			}
			return x + 3, nil
		},
		CtxFn: func(ctx interface{}, a []interface{}) (interface{}, error) {
			if len(a) != 1 {
				return nil, ErrCustom
			}
			x, ok := a[0].(int64)
			if !ok {
				return nil, ErrCustom
			}
			c := ctx.(*eval.Ctx)
			sub := nestedSubExpr()
			v1, err1 := sub.TryEval(c)
			v2, err2 := sub.Eval(c)
			if err1 != nil || err2 != nil || v1 != int64(3) || v2 != int64(3) {
				return nil, fmt.Errorf("nested evaluation on the same context gave %v/%v and %v/%v instead of 3", v1, err1, v2, err2)
			}
			// and a sub-rule whose own operand stack is deeper than the 8/16 allocation classes (40 pending operands)
			deep := nestedDeepSubExpr()
			v3, err3 := deep.Eval(c)
			v4, err4 := deep.TryEval(c)
			if err3 != nil || err4 != nil || v3 != int64(41) || v4 != int64(41) {
				return nil, fmt.Errorf("nested deep evaluation on the same context gave %v/%v and %v/%v instead of 41", v3, err3, v4, err4)
			}
			// ... and one whose operators have one, three and nine operands (argument slices of every size class)
			wide := nestedWideSubExpr()
			v5, err5 := wide.Eval(c)
			v6, err6 := wide.TryEval(c)
			if err5 != nil || err6 != nil || v5 != int64(24) || v6 != int64(24) {
				return nil, fmt.Errorf("nested wide evaluation on the same context gave %v/%v and %v/%v instead of 24", v5, err5, v6, err6)
			}
			return x + 3, nil
		}})
	m := map[string]*CustomOp{}
	for _, o := range ops {
		m[o.Name] = o
		// the same function registered under a second name that configs declare stateless
		s := *o
		s.Name = "s" + o.Name[1:]
		m[s.Name] = &s
	}
	return m
}

var stdCustom = mkCustom()

var (
	nestedSubOnce sync.Once
	nestedSub     *eval.Expr
)

// nestedSubExpr: (+ 1 (* 1 2)) compiled once without optimizations (so that it really uses an operand stack)
func nestedSubExpr() *eval.Expr {
	nestedSubOnce.Do(func() {
		e, err := eval.Compile(eval.NewConfig(eval.Optimizations(false)), "(+ 1 (* 1 (- 3 1)))")
		if err != nil {
			panic(err)
		}
		nestedSub = e
	})
	return nestedSub
}

var (
	nestedDeepOnce sync.Once
	nestedDeep     *eval.Expr
)

// nestedDeepSubExpr: (+ 1 (+ 1 ... (+ 1 1))) with 40 pending operands, compiled without optimizations
func nestedDeepSubExpr() *eval.Expr {
	nestedDeepOnce.Do(func() {
		src := strings.Repeat("(+ 1 ", 40) + "1" + strings.Repeat(")", 40)
		e, err := eval.Compile(eval.NewConfig(eval.Optimizations(false)), src)
		if err != nil {
			panic(err)
		}
		nestedDeep = e
	})
	return nestedDeep
}

var (
	nestedWideOnce sync.Once
	nestedWide     *eval.Expr
)

// nestedWideSubExpr: (+ (if (not false) 4 0) 1 (* 2 3 1) (- (+ 1 1 1 1 1 1 1 1 1) 4) 8) = 4+1+6+5+8 = 24, without
// optimizations; the first operator it applies has one operand, the later ones three, nine and five
func nestedWideSubExpr() *eval.Expr {
	nestedWideOnce.Do(func() {
		e, err := eval.Compile(eval.NewConfig(eval.Optimizations(false)), "(+ (if (not false) 4 0) 1 (* 2 3 1) (- (+ 1 1 1 1 1 1 1 1 1) 4) 8)")
		if err != nil {
			panic(err)
		}
		nestedWide = e
	})
	return nestedWide
}

// names declared stateless in StatelessOperators ("sq" is declared but never registered)
var stdStateless = []string{"sb", "si", "sz", "sfail", "spos", "spick", "ss", "slen", "ssum", "sq", "add"}

var stdConsts = map[string]interface{}{
	"KT": true, "KF": false, "KI": int64(7), "KN": int64(-3), "KZ": int64(0), "KS": "kay",
	"KIL": []int64{1, 2, 3}, "KSL": []string{"a", "b"},
	// names that exist both as constant and as variable: the constant wins
	"kshadow": true, "ishadow": int64(5),
}

// ---------------------------------------------------------------------------

type G struct {
	R *rand.Rand

	BoolVars, IntVars, StrVars []string
	IListVars, SListVars       []string
	ISetVars, SSetVars         []string // variables bound to pre-built sets (only as right operand of in)

	Fail      float64 // probability of a failing construct where one fits
	Custom    bool
	Stateless bool // also use the declared-stateless twins
	Consts    bool
	Aliases   bool
	Skeleton  bool // only and/or/not/if over boolean leaves
	TwoLeaf   float64
	MaxArity  int
	Extremes  bool
	Lists     bool
	Encodings bool // version/date operators
	StrPool   []string
	IntLits   []int64
	Budget    int // remaining node budget; generation degrades to leaves when it is used up
	// Foreign: also use clen/slen, operators whose result is a plain Go int (no literal syntax, so Dump cannot print a
	// folded one faithfully): only for workloads whose oracle does not read programs back from Dump
	Foreign bool
	// Remote: also use (crem "name"), an operator that reads a variable through its context (TryEval drivers only: the
	// reference treats the call as the variable it stands for)
	Remote bool
}

func (g *G) p(x float64) bool { return g.R.Float64() < x }

func (g *G) pick(s []string) string { return s[g.R.Intn(len(s))] }

func (g *G) name(canon string) string {
	as := aliasesOf[canon]
	if !g.Aliases || len(as) == 1 {
		return canon
	}
	return as[g.R.Intn(len(as))]
}

var defaultIntLits = []int64{0, 1, -1, 2, 3, 5, 7, 10, -3, 100, -100}
var defaultStrPool = []string{"", "a", "b", "kay", "x y", "1.2.3", "zz", "λ", "a+", "fi", "if", "DNE"}

func (g *G) intLit() int64 {
	if g.Extremes && g.p(0.12) {
		return extremeInts[g.R.Intn(len(extremeInts))]
	}
	l := g.IntLits
	if l == nil {
		l = defaultIntLits
	}
	return l[g.R.Intn(len(l))]
}

func (g *G) strLit() string {
	l := g.StrPool
	if l == nil {
		l = defaultStrPool
	}
	return l[g.R.Intn(len(l))]
}

func (g *G) arity() int {
	k := 2 + g.R.Intn(3)
	if g.MaxArity > 4 && g.p(0.15) {
		k = 2 + g.R.Intn(g.MaxArity-1)
	}
	if k > 4 && k > g.Budget/2 {
		k = 4
	}
	return k
}

// spend takes one node from the budget; false when the budget is exhausted
func (g *G) spend() bool {
	g.Budget--
	return g.Budget > 0
}

func (g *G) boolLeaf() *Node {
	r := g.R.Intn(10)
	if g.Remote && g.R.Intn(8) == 0 {
		return Op("crem", TBool, Lit([]string{"rb0", "rb1"}[g.R.Intn(2)]))
	}
	switch {
	case r < 5 && len(g.BoolVars) > 0:
		return Var(g.pick(g.BoolVars), TBool)
	case r < 6 && g.Consts:
		switch g.R.Intn(3) {
		case 0:
			return ConstRef("KT", true)
		case 1:
			return ConstRef("KF", false)
		default:
			return ConstRef("kshadow", true)
		}
	}
	return Lit(g.R.Intn(2) == 0)
}

func (g *G) intLeaf() *Node {
	r := g.R.Intn(10)
	if g.Remote && g.R.Intn(10) == 0 {
		return Op("crem", TInt, Lit("ri0"))
	}
	switch {
	case r < 4 && len(g.IntVars) > 0:
		return Var(g.pick(g.IntVars), TInt)
	case r < 5 && g.Consts:
		switch g.R.Intn(4) {
		case 0:
			return ConstRef("KI", int64(7))
		case 1:
			return ConstRef("KN", int64(-3))
		case 2:
			return ConstRef("KZ", int64(0))
		default:
			return ConstRef("ishadow", int64(5))
		}
	}
	return Lit(g.intLit())
}

func (g *G) strLeaf() *Node {
	r := g.R.Intn(10)
	switch {
	case r < 4 && len(g.StrVars) > 0:
		return Var(g.pick(g.StrVars), TStr)
	case r < 5 && g.Consts:
		return ConstRef("KS", "kay")
	}
	return Lit(g.strLit())
}

func (g *G) ilistLeaf() *Node {
	r := g.R.Intn(10)
	switch {
	case r < 3 && len(g.IListVars) > 0:
		return Var(g.pick(g.IListVars), TIList)
	case r < 4 && g.Consts:
		return ConstRef("KIL", []int64{1, 2, 3})
	case r < 5:
		return Lit([]string{}) // the empty literal is typeless
	}
	n := g.R.Intn(5)
	if n == 0 {
		n = 1
	}
	l := make([]int64, n)
	for i := range l {
		l[i] = g.intLit()
	}
	return Lit(l)
}

func (g *G) slistLeaf() *Node {
	r := g.R.Intn(10)
	switch {
	case r < 3 && len(g.SListVars) > 0:
		return Var(g.pick(g.SListVars), TSList)
	case r < 4 && g.Consts:
		return ConstRef("KSL", []string{"a", "b"})
	case r < 5:
		return Lit([]string{})
	}
	n := 1 + g.R.Intn(4)
	l := make([]string, n)
	for i := range l {
		l[i] = g.strLit()
	}
	return Lit(l)
}

// failing boolean-typed expression (never yields a non-boolean value)
func (g *G) failingBool(d int) *Node {
	switch g.R.Intn(8) {
	case 7:
		if g.Custom && g.Foreign {
			// a plain Go int from an operator (constant argument: the stateless twin is folded) against an int64
			pre := "c"
			if g.Stateless && g.R.Intn(2) == 0 {
				pre = "s"
			}
			s := g.strLit()
			return Op(g.pick([]string{"eq", "=", "ne", "!=", "gt", "in"}), TBool, Op(pre+"len", TInt, Lit(s)), Lit(int64(len(s))))
		}
		return Op(g.name("not"), TBool, Lit(g.intLit()))
	case 0:
		return Op(g.name("not"), TBool, Lit(g.intLit()))
	case 1:
		return Op(g.name("gt"), TBool, g.Int(d-1), Lit("str"))
	case 2:
		if g.Custom {
			return Op("cfail", TBool)
		}
		return Op("xor", TBool, Lit(true), Lit(int64(1)))
	case 3:
		return Op(g.name("gt"), TBool, Op(g.name("div"), TInt, g.Int(d-1), Lit(int64(0))), g.Int(d-1))
	case 4:
		return Op("between", TBool, g.Int(d-1), Lit("a"), g.Int(d-1))
	case 5:
		return Op(g.name("lt"), TBool, g.Int(d-1)) // wrong count
	default:
		return Op("in", TBool, g.Int(d-1), Lit([]string{"a"})) // type mismatch
	}
}

func (g *G) failingInt(d int) *Node {
	switch g.R.Intn(8) {
	case 7:
		if g.Custom && g.Foreign {
			pre := "c"
			if g.Stateless && g.R.Intn(2) == 0 {
				pre = "s"
			}
			if g.R.Intn(2) == 0 {
				return Op(pre+"len", TInt, g.strLeaf())
			}
			return Op(g.name("add"), TInt, Op(pre+"len", TInt, Lit(g.strLit())), Lit(int64(1)))
		}
		return Op(g.name("add"), TInt, g.Int(d-1), Lit("s"))
	case 0:
		return Op(g.name("add"), TInt, g.Int(d-1), Lit("s"))
	case 1:
		return Op(g.name("mod"), TInt, g.Int(d-1), Lit(int64(0)))
	case 2:
		if g.Custom {
			return Op("ci", TInt, Lit(int64(3)), Lit(int64(3)))
		}
		return Op(g.name("sub"), TInt, Lit(true), Lit(int64(1)))
	case 3:
		return Op(g.name("version"), TInt, Lit("1.x.3"))
	case 4:
		return If(Lit(int64(1)), g.Int(d-1), g.Int(d-1)) // non-boolean condition
	case 5:
		return Op(g.name("mul"), TInt, g.Int(d-1)) // wrong count
	default:
		return Op(g.name("date"), TInt, Lit("2021-13-45"))
	}
}

// Bool generates a boolean-typed (or failing) expression of depth <= d.
func (g *G) Bool(d int) *Node {
	if !g.spend() {
		return g.boolLeaf()
	}
	if d <= 0 || g.p(0.12) {
		if g.TwoLeaf > 0 && d > -1 && g.p(g.TwoLeaf) {
			return g.twoLeafBool()
		}
		return g.boolLeaf()
	}
	if g.Fail > 0 && g.p(g.Fail) {
		return g.failingBool(d)
	}
	if g.Skeleton {
		r := g.R.Intn(100)
		switch {
		case r < 56:
			return g.andOr(d)
		case r < 70:
			return Op(g.name("not"), TBool, g.Bool(d-1))
		case r < 78:
			// the other boolean folds, nested among and/or
			k := 2 + g.R.Intn(2)
			ch := make([]*Node, k)
			for i := range ch {
				ch[i] = g.Bool(d - 1)
			}
			if g.R.Intn(3) == 0 {
				return Op(g.name("eq"), TBool, ch...)
			}
			return Op("xor", TBool, ch...)
		default:
			return If(g.Bool(d-1), g.Bool(d-1), g.Bool(d-1))
		}
	}
	if g.TwoLeaf > 0 && g.p(g.TwoLeaf/2) {
		return g.twoLeafBool()
	}
	r := g.R.Intn(100)
	switch {
	case r < 34:
		return g.andOr(d)
	case r < 41:
		return Op(g.name("not"), TBool, g.Bool(d-1))
	case r < 50:
		return If(g.Bool(d-1), g.Bool(d-1), g.Bool(d-1))
	case r < 62:
		return Op(g.name([]string{"gt", "lt", "ge", "le"}[g.R.Intn(4)]), TBool, g.Int(d-1), g.Int(d-1))
	case r < 72:
		nm := g.name([]string{"eq", "ne"}[g.R.Intn(2)])
		switch g.R.Intn(5) {
		case 0:
			return Op(nm, TBool, g.Bool(d-1), g.Bool(d-1))
		case 1:
			return Op(nm, TBool, g.Str(d-1), g.Str(d-1))
		case 2:
			// mixed scalar types: never equal, not an error
			return Op(nm, TBool, g.Int(d-1), g.Str(d-1))
		default:
			return Op(nm, TBool, g.Int(d-1), g.Int(d-1))
		}
	case r < 76:
		k := g.arity()
		ch := make([]*Node, k)
		for i := range ch {
			ch[i] = g.Bool(d - 1 - g.R.Intn(2))
		}
		return Op("xor", TBool, ch...)
	case r < 80:
		// n-ary eq
		k := 2 + g.R.Intn(3)
		ch := make([]*Node, k)
		if g.R.Intn(2) == 0 {
			for i := range ch {
				ch[i] = g.Bool(d - 1 - g.R.Intn(2))
			}
		} else {
			for i := range ch {
				ch[i] = g.Int(d - 1 - g.R.Intn(2))
			}
		}
		return Op(g.name("eq"), TBool, ch...)
	case r < 84:
		return Op("between", TBool, g.Int(d-1), g.Int(d-1), g.Int(d-1))
	case r < 90:
		if !g.Lists {
			return g.andOr(d)
		}
		switch g.R.Intn(6) {
		case 0:
			return Op("in", TBool, g.Str(d-1), g.SList(d-1))
		case 1:
			if len(g.ISetVars) > 0 {
				return Op("in", TBool, g.Int(d-1), Var(g.pick(g.ISetVars), TAny))
			}
			fallthrough
		case 2:
			if len(g.SSetVars) > 0 && g.R.Intn(2) == 0 {
				return Op("in", TBool, g.Str(d-1), Var(g.pick(g.SSetVars), TAny))
			}
			fallthrough
		default:
			return Op("in", TBool, g.Int(d-1), g.IList(d-1))
		}
	case r < 94:
		if !g.Lists {
			return Op(g.name("not"), TBool, g.Bool(d-1))
		}
		if g.R.Intn(2) == 0 {
			return Op("overlap", TBool, g.IList(d-1), g.IList(d-1))
		}
		return Op("overlap", TBool, g.SList(d-1), g.SList(d-1))
	default:
		if g.Custom {
			pre := "c"
			if g.Stateless && g.R.Intn(2) == 0 {
				pre = "s"
			}
			if g.R.Intn(6) == 0 {
				n := 2 + g.R.Intn(3)
				ch := make([]*Node, n)
				for i := range ch {
					ch[i] = g.Bool(d - 1)
				}
				return Op([]string{"AND", "Or"}[g.R.Intn(2)], TBool, ch...)
			}
			if g.R.Intn(5) == 0 {
				n := []int{0, 1, 3, 3, 4}[g.R.Intn(5)]
				ch := make([]*Node, n)
				for i := range ch {
					ch[i] = g.Int(d - 1)
				}
				return Op("cmem", TBool, g.Int(d-1), Op("ctup", TAny, ch...))
			}
			if g.R.Intn(2) == 0 {
				return Op(pre+"b", TBool, g.Bool(d-1))
			}
			return Op(pre+"pos", TBool, g.Int(d-1))
		}
		return g.andOr(d)
	}
}

func (g *G) andOr(d int) *Node {
	c := "and"
	if g.R.Intn(2) == 0 {
		c = "or"
	}
	k := g.arity()
	ch := make([]*Node, k)
	for i := range ch {
		if k > 4 && i < k-1 && g.p(0.7) {
			ch[i] = g.Bool(g.R.Intn(2))
		} else {
			ch[i] = g.Bool(d - 1 - g.R.Intn(2))
		}
	}
	return Op(g.name(c), TBool, ch...)
}

func (g *G) twoLeafBool() *Node {
	switch g.R.Intn(6) {
	case 0, 1:
		c := "and"
		if g.R.Intn(2) == 0 {
			c = "or"
		}
		return Op(g.name(c), TBool, g.boolLeaf(), g.boolLeaf())
	case 2:
		return Op(g.name([]string{"eq", "ne"}[g.R.Intn(2)]), TBool, g.boolLeaf(), g.boolLeaf())
	case 3:
		return Op("xor", TBool, g.boolLeaf(), g.boolLeaf())
	default:
		return Op(g.name([]string{"gt", "lt", "ge", "le", "eq", "ne"}[g.R.Intn(6)]), TBool, g.intLeaf(), g.intLeaf())
	}
}

// Int generates an int-typed (or failing) expression.
func (g *G) Int(d int) *Node {
	if !g.spend() {
		return g.intLeaf()
	}
	if d <= 0 || g.p(0.25) {
		if g.TwoLeaf > 0 && d > -1 && g.p(g.TwoLeaf) {
			return Op(g.name([]string{"add", "sub", "mul"}[g.R.Intn(3)]), TInt, g.intLeaf(), g.intLeaf())
		}
		return g.intLeaf()
	}
	if g.Fail > 0 && g.p(g.Fail) {
		return g.failingInt(d)
	}
	r := g.R.Intn(100)
	switch {
	case r < 55:
		var cs []string
		if g.Fail > 0 {
			cs = []string{"add", "sub", "mul", "div", "mod"}
		} else {
			cs = []string{"add", "sub", "mul"}
		}
		k := g.arity()
		ch := make([]*Node, k)
		for i := range ch {
			if k > 4 && i < k-1 && g.p(0.7) {
				ch[i] = g.Int(g.R.Intn(2))
			} else {
				ch[i] = g.Int(d - 1 - g.R.Intn(2))
			}
		}
		return Op(g.name(cs[g.R.Intn(len(cs))]), TInt, ch...)
	case r < 63:
		// total division: by a non-zero literal
		c := []string{"div", "mod"}[g.R.Intn(2)]
		dv := int64(1 + g.R.Intn(9))
		if g.R.Intn(3) == 0 {
			dv = -dv
		}
		return Op(g.name(c), TInt, g.Int(d-1), Lit(dv))
	case r < 78:
		return If(g.Bool(d-1), g.Int(d-1), g.Int(d-1))
	case r < 84:
		if g.Encodings {
			return g.encoding()
		}
		return Op(g.name("add"), TInt, g.Int(d-1), g.Int(d-1))
	default:
		if g.Custom {
			pre := "c"
			if g.Stateless && g.R.Intn(2) == 0 {
				pre = "s"
			}
			switch g.R.Intn(7) {
			case 6:
				if g.Lists {
					return Op(pre+"sum", TInt, g.IList(d-1))
				}
				return Op(pre+"z", TInt)
			case 5:
				n := []int{1, 3, 3, 4, 5}[g.R.Intn(5)]
				ch := make([]*Node, n)
				for i := range ch {
					ch[i] = g.Int(d - 1)
				}
				return Op("cmed", TInt, ch...)
			case 4:
				return Op("cnest", TInt, g.Int(d-1))
			case 0:
				if g.R.Intn(3) == 0 {
					return Op("_cid", TInt)
				}
				return Op(pre+"z", TInt)
			case 1:
				return Op(pre+"pick", TInt, g.Bool(d-1), g.Int(d-1), g.Int(d-1))
			default:
				if g.Fail > 0 {
					return Op(pre+"i", TInt, g.Int(d-1), g.Int(d-1))
				}
				// total: second operand differs by construction
				a := g.Int(d - 1)
				return Op(pre+"i", TInt, Op("mul", TInt, a, Lit(int64(2))), Op("add", TInt, Op("mul", TInt, a.Clone(), Lit(int64(2))), Lit(int64(1))))
			}
		}
		return Op(g.name("sub"), TInt, g.Int(d-1), g.Int(d-1))
	}
}

func (g *G) encoding() *Node {
	switch g.R.Intn(6) {
	case 0:
		v := fmt.Sprintf("%d.%d.%d", g.R.Intn(3), g.R.Intn(100), g.R.Intn(10000))
		return Op(g.pick([]string{"version", "to_version", "t_version"}), TInt, Lit(v))
	case 1:
		v := fmt.Sprintf("%d.%d", g.R.Intn(20), g.R.Intn(10000))
		return Op(g.pick([]string{"version", "to_version", "t_version"}), TInt, Lit(v), Lit(int64(1+g.R.Intn(4))))
	case 2:
		v := fmt.Sprintf("%04d-%02d-%02d", 1970+g.R.Intn(80), 1+g.R.Intn(12), 1+g.R.Intn(28))
		return Op(g.pick([]string{"date", "to_date", "td_date"}), TInt, Lit(v))
	case 3:
		v := fmt.Sprintf("%04d-%02d-%02d %02d:%02d:%02d", 1970+g.R.Intn(80), 1+g.R.Intn(12), 1+g.R.Intn(28), g.R.Intn(24), g.R.Intn(60), g.R.Intn(60))
		return Op(g.pick([]string{"datetime", "to_datetime", "td_time"}), TInt, Lit(v))
	case 4:
		v := fmt.Sprintf("%02d/%02d/%04d", 1+g.R.Intn(12), 1+g.R.Intn(28), 1900+g.R.Intn(200))
		return Op(g.pick([]string{"t_date", "date", "to_date"}), TInt, Lit(v), Lit("01/02/2006"))
	default:
		v := fmt.Sprintf("%04d-%02d-%02dT%02d:%02d:%02d+02:00", 1970+g.R.Intn(80), 1+g.R.Intn(12), 1+g.R.Intn(28), g.R.Intn(24), g.R.Intn(60), g.R.Intn(60))
		return Op(g.pick([]string{"t_time", "datetime", "to_datetime"}), TInt, Lit(v), Lit("2006-01-02T15:04:05Z07:00"))
	}
}

func (g *G) Str(d int) *Node {
	if !g.spend() || d <= 0 || g.p(0.6) {
		return g.strLeaf()
	}
	if g.Custom && g.p(0.4) {
		return Op("cs", TStr, g.Str(d-1))
	}
	return If(g.Bool(d-1), g.Str(d-1), g.Str(d-1))
}

func (g *G) IList(d int) *Node {
	if !g.spend() || d <= 0 || g.p(0.8) {
		return g.ilistLeaf()
	}
	return If(g.Bool(d-1), g.ilistLeaf(), g.ilistLeaf())
}

func (g *G) SList(d int) *Node {
	if !g.spend() || d <= 0 || g.p(0.8) {
		return g.slistLeaf()
	}
	return If(g.Bool(d-1), g.slistLeaf(), g.slistLeaf())
}

// Root generates a non-leaf expression of a random type.
func (g *G) Root(d int) *Node {
	budget := g.Budget
	if budget < 8 {
		budget = 8
	}
	for {
		g.Budget = budget
		var n *Node
		if g.Skeleton || g.R.Intn(4) != 0 {
			n = g.Bool(d)
		} else {
			n = g.Int(d)
		}
		if !n.IsLeaf() {
			return n
		}
	}
}

// ---------------------------------------------------------------------------
// strata

type Stratum struct {
	Name string
	Make func(r *rand.Rand) *G
	Dep  func(r *rand.Rand) int
}

func baseG(r *rand.Rand) *G {
	return &G{R: r,
		BoolVars: []string{"b0", "b1", "b2", "b3"}, IntVars: []string{"i0", "i1", "i2", "fi"}, StrVars: []string{"s0", "s1"},
		IListVars: []string{"li0"}, SListVars: []string{"ls0"}, ISetVars: []string{"seti"}, SSetVars: []string{"sets"},
		Custom: true, Consts: true, Aliases: true, Lists: true, Encodings: true, MaxArity: 4, Budget: 300}
}

var strata = []Stratum{
	{"skeleton", func(r *rand.Rand) *G {
		g := baseG(r)
		g.Skeleton = true
		g.BoolVars = []string{"b0", "b1", "b2", "b3", "b4"}
		g.MaxArity = 6
		return g
	}, func(r *rand.Rand) int { return 2 + r.Intn(4) }},
	{"mixed", func(r *rand.Rand) *G {
		g := baseG(r)
		g.Stateless = true
		g.Extremes = true
		return g
	}, func(r *rand.Rand) int { return 2 + r.Intn(4) }},
	{"failing", func(r *rand.Rand) *G {
		g := baseG(r)
		g.Fail = 0.12
		g.Stateless = true
		return g
	}, func(r *rand.Rand) int { return 2 + r.Intn(4) }},
	{"wide-deep", func(r *rand.Rand) *G {
		g := baseG(r)
		g.MaxArity = 24
		g.Budget = 1200
		if r.Intn(6) == 0 {
			g.MaxArity = 127
			g.Budget = 3000
		}
		g.Fail = 0.03
		return g
	}, func(r *rand.Rand) int { return 2 + r.Intn(8) }},
	{"two-leaf", func(r *rand.Rand) *G {
		g := baseG(r)
		g.TwoLeaf = 0.6
		g.Fail = 0.04
		return g
	}, func(r *rand.Rand) int { return 1 + r.Intn(4) }},
}

func stratumByName(n string) *Stratum {
	for i := range strata {
		if strata[i].Name == n {
			return &strata[i]
		}
	}
	panic("no stratum " + n)
}

// rightNested: deep right-nested chain that pushes the operand stack deep.
func rightNested(r *rand.Rand, depth int, kind int) *Node {
	var n *Node
	switch kind {
	case 0: // arithmetic: (+ i0 (+ i1 (+ ...))), the innermost operand sometimes a rule that evaluates sub-rules on the same context
		n = Var("i0", TInt)
		if r.Intn(2) == 0 {
			n = Op("cnest", TInt, n)
		}
		for i := 0; i < depth; i++ {
			l := Lit(int64(i%7 - 3))
			if i%3 == 0 {
				l = Var([]string{"i0", "i1", "i2"}[i%3], TInt)
			}
			n = Op([]string{"+", "-", "*"}[r.Intn(3)], TInt, l, n)
		}
	case 1: // boolean: (and b0 (or b1 (and ...)))
		n = Var("b0", TBool)
		for i := 0; i < depth; i++ {
			n = Op([]string{"and", "or"}[i%2], TBool, Var([]string{"b0", "b1", "b2"}[i%3], TBool), n)
		}
	default: // comparisons with pending left operands: (= 1 (+ 1 (if b (...) 0)))
		n = Var("i1", TInt)
		for i := 0; i < depth; i++ {
			if i%2 == 0 {
				n = Op("+", TInt, Lit(int64(1)), Var("i0", TInt), n)
			} else {
				n = If(Var([]string{"b0", "b1"}[i%2], TBool), n, Lit(int64(i)))
			}
		}
	}
	return n
}

// ---------------------------------------------------------------------------
// bindings

type Binding struct {
	Vals  map[string]interface{} // engine-normalised values
	Avail map[string]bool        // nil: all available
}

func (b Binding) String() string {
	var parts []string
	for _, k := range sortedKeys(b.Vals) {
		s := k + "=" + valTextAny(b.Vals[k])
		if b.Avail != nil && !b.Avail[k] {
			s += "(unavailable)"
		}
		parts = append(parts, s)
	}
	return "{" + strings.Join(parts, " ") + "}"
}

func valTextAny(v interface{}) string {
	switch x := v.(type) {
	case map[int64]struct{}:
		return fmt.Sprintf("set%v", keysI(x))
	case map[string]struct{}:
		return fmt.Sprintf("set%v", keysS(x))
	}
	return valText(v)
}

func sortedKeys(m map[string]interface{}) []string {
	r := make([]string, 0, len(m))
	for k := range m {
		r = append(r, k)
	}
	sortStrings(r)
	return r
}

// randomValue for a variable of static type ty.
func randomValue(r *rand.Rand, name string, ty Ty, lits []int64, strs []string) interface{} {
	switch ty {
	case TBool:
		return r.Intn(2) == 0
	case TInt:
		if len(lits) > 0 && r.Intn(3) == 0 {
			return lits[r.Intn(len(lits))] + int64(r.Intn(3)-1)
		}
		if r.Intn(10) == 0 {
			return extremeInts[r.Intn(len(extremeInts))]
		}
		return defaultIntLits[r.Intn(len(defaultIntLits))]
	case TStr:
		if len(strs) > 0 && r.Intn(2) == 0 {
			return strs[r.Intn(len(strs))]
		}
		return defaultStrPool[r.Intn(len(defaultStrPool))]
	case TIList:
		n := r.Intn(4)
		l := make([]int64, n)
		for i := range l {
			if len(lits) > 0 && r.Intn(2) == 0 {
				l[i] = lits[r.Intn(len(lits))]
			} else {
				l[i] = defaultIntLits[r.Intn(len(defaultIntLits))]
			}
		}
		return l
	case TSList:
		n := r.Intn(4)
		l := make([]string, n)
		for i := range l {
			if len(strs) > 0 && r.Intn(2) == 0 {
				l[i] = strs[r.Intn(len(strs))]
			} else {
				l[i] = defaultStrPool[r.Intn(len(defaultStrPool))]
			}
		}
		return l
	}
	// sets
	if strings.HasPrefix(name, "seti") {
		m := map[int64]struct{}{}
		for i := r.Intn(4); i > 0; i-- {
			if len(lits) > 0 && r.Intn(2) == 0 {
				m[lits[r.Intn(len(lits))]] = struct{}{}
			} else {
				m[defaultIntLits[r.Intn(len(defaultIntLits))]] = struct{}{}
			}
		}
		return m
	}
	m := map[string]struct{}{}
	for i := r.Intn(4); i > 0; i-- {
		if len(strs) > 0 && r.Intn(2) == 0 {
			m[strs[r.Intn(len(strs))]] = struct{}{}
		} else {
			m[defaultStrPool[r.Intn(len(defaultStrPool))]] = struct{}{}
		}
	}
	return m
}

// literalPools collects the int and string literals of a tree (bindings flip comparisons with them).
func literalPools(n *Node) (ints []int64, strs []string) {
	n.Walk(func(x *Node) {
		if x.Kind != KLit {
			return
		}
		switch v := x.Val.(type) {
		case int64:
			if v > math.MinInt64+2 && v < math.MaxInt64-2 {
				ints = append(ints, v)
			}
		case string:
			strs = append(strs, v)
		case []int64:
			for _, e := range v {
				if e > math.MinInt64+2 && e < math.MaxInt64-2 {
					ints = append(ints, e)
				}
			}
		case []string:
			strs = append(strs, v...)
		}
	})
	return
}

// genBindings: nb bindings for the variables of the tree. If unboundP > 0 a
// variable is left unbound with that probability (never in the first binding).
func genBindings(r *rand.Rand, n *Node, nb int, unboundP float64) []Binding {
	order, tys := n.Vars()
	ints, strs := literalPools(n)
	var res []Binding
	nbool := 0
	for _, v := range order {
		if tys[v] == TBool {
			nbool++
		}
	}
	for k := 0; k < nb; k++ {
		vals := map[string]interface{}{}
		bi := 0
		for _, v := range order {
			if k > 0 && unboundP > 0 && r.Float64() < unboundP {
				if tys[v] == TBool {
					bi++
				}
				continue
			}
			if tys[v] == TBool && nbool <= 3 && nb >= 1<<uint(nbool) {
				// enumerate boolean assignments systematically
				vals[v] = (k>>uint(bi))&1 == 1
				bi++
				continue
			}
			vals[v] = randomValue(r, v, tys[v], ints, strs)
		}
		// the shadowed names get the "wrong" value as variables
		vals["kshadow"] = false
		vals["ishadow"] = int64(-5)
		res = append(res, Binding{Vals: vals})
	}
	return res
}

func keysI(m map[int64]struct{}) []int64 {
	r := make([]int64, 0, len(m))
	for k := range m {
		r = append(r, k)
	}
	sortInt64s(r)
	return r
}

func keysS(m map[string]struct{}) []string {
	r := make([]string, 0, len(m))
	for k := range m {
		r = append(r, k)
	}
	sortStrings(r)
	return r
}
