package main

// Compiling one source under many configurations (used by C02, C03, C04, C05).

import (
	"math"
	"math/rand"
	"strings"

	"github.com/onheap/eval"
)

type Variant struct {
	Cfg       CaseCfg
	Label     string
	Src       string // source actually compiled (may carry a directive prefix)
	CC        *eval.Config
	E         *eval.Expr
	CfgRec    *Recorder
	Dump      string
	DumpTree  *Node
	DumpErr   error
	Table     string
	Directive bool
	CostKind  string
	MaxStack  int16
}

func randomCosts(r *rand.Rand, tree *Node, pathological bool) map[string]float64 {
	m := map[string]float64{}
	order, _ := tree.Vars()
	vals := []float64{0, 1, 2, 5, 7, 10, 50, 1000, -1, -20, 0.5}
	if pathological {
		vals = []float64{math.NaN(), math.Inf(1), math.Inf(-1), 1e308, -1e308, 0, -0.0, 1e-300, math.MaxFloat64}
	}
	for _, v := range order {
		if r.Intn(2) == 0 {
			m[v] = vals[r.Intn(len(vals))]
		}
	}
	var opsSeen []string
	tree.Walk(func(n *Node) {
		if n.Kind == KOp {
			opsSeen = append(opsSeen, n.Name)
		}
	})
	for _, o := range opsSeen {
		if r.Intn(4) == 0 {
			m[o] = vals[r.Intn(len(vals))]
		}
	}
	if r.Intn(3) == 0 {
		m["variable"] = vals[r.Intn(len(vals))]
	}
	if r.Intn(3) == 0 {
		m["operator"] = vals[r.Intn(len(vals))]
	}
	return m
}

// compileVariant compiles src under cfg, dumps and re-reads the dump.
func compileVariant(w *W, tree *Node, src string, cfg CaseCfg, label string) (*Variant, bool) {
	v := &Variant{Cfg: cfg, Label: label, Src: src, CfgRec: &Recorder{}}
	v.CC = buildConfig(cfg, v.CfgRec)
	e, co := compileGuard(v.CC, src)
	w.Evals++
	if co.Panic != nil {
		w.Fail("compile-panic/"+normPanic(co.Panic)+"@"+panicSite(co.Stack), "Compile panicked: %v\nsource: %s\nconfig: %s\n%s", co.Panic, src, cfg, co.Stack)
		return nil, false
	}
	if co.Err != nil {
		if c09Expect(tree, cfg.EffectiveOpts(), cfg.Events) != 0 {
			// beyond (or, after flattening / event-node insertion, possibly beyond) a capacity limit: a legitimate rejection
			w.Inc("rejected_by_capacity_limit")
			return nil, false
		}
		w.Fail("compile-rejects-wellformed", "Compile rejected a well-formed program: %v\nsource: %s\nconfig: %s", co.Err, firstN(src, 3000), cfg)
		return nil, false
	}
	v.E = e
	d, do := dumpGuard(e)
	if do.Panic != nil {
		w.Fail("dump-panic/"+normPanic(do.Panic)+"@"+panicSite(do.Stack), "Dump panicked: %v\nsource: %s\nconfig: %s\n%s", do.Panic, src, cfg, do.Stack)
		return nil, false
	}
	v.Dump = d
	v.DumpTree, v.DumpErr = parseDump(d)
	if hooksCompiled {
		_, v.MaxStack = progSnapshot(e)
	}
	return v, true
}

// optVariants: the 16 subsets set programmatically; optionally the same 16
// through directives over a base config holding a different subset; optionally
// cost-map variants of the Reordering subsets.
func optVariants(w *W, r *rand.Rand, tree *Node, undefined bool, events int, withDirectives, withCosts bool) []*Variant {
	src := tree.Prefix()
	var vs []*Variant
	// in undefined-variable mode a third of the programs registers a random half of the names anyway
	// (keyed and undefined variables side by side)
	var mixedNames []string
	if undefined && r.Intn(3) == 0 {
		order, _ := tree.Vars()
		for _, n := range order {
			if r.Intn(2) == 0 {
				mixedNames = append(mixedNames, n)
			}
		}
	}
	for _, o := range allOptSets() {
		cfg := cfgFor(tree, o, undefined)
		if mixedNames != nil {
			cfg.VarNames = mixedNames
			cfg.RegisterAlways = true
		}
		cfg.Events = events
		if k := r.Intn(4); k >= 2 {
			cfg.StrayOptimize = k - 1
		}
		if v, ok := compileVariant(w, tree, src, cfg, "options"); ok {
			vs = append(vs, v)
		}
		if withDirectives {
			base := OptSet(r.Intn(16))
			if base == o {
				base ^= OptSet(1 << uint(r.Intn(4)))
			}
			dcfg := cfgFor(tree, base, undefined)
			if mixedNames != nil {
				dcfg.VarNames = mixedNames
				dcfg.RegisterAlways = true
			}
			dcfg.Events = events
			eff := o
			dcfg.Directive = &eff
			dsrc := o.Directive(r) + src
			if r.Intn(4) == 0 {
				dsrc = "; a plain comment first\n" + dsrc
			}
			if v, ok := compileVariant(w, tree, dsrc, dcfg, "directive"); ok {
				v.Directive = true
				v.Cfg.Opts = o // effective subset
				v.Cfg.Directive = nil
				vs = append(vs, v)
			}
		}
		if withDirectives {
			// a third way of selecting the subset: the Optimizations(...) option functions
			fcfg := cfgFor(tree, o, undefined)
			fcfg.Events = events
			fcfg.OptionFuncs = o.optionFuncs(r)
			if v, ok := compileVariant(w, tree, src, fcfg, "option-funcs"); ok {
				v.Directive = true // judged like a directive variant: must equal the option-selected one
				vs = append(vs, v)
			}
		}
		if withCosts && o&OptRO != 0 {
			for _, path := range []bool{false, true} {
				ccfg := cfgFor(tree, o, undefined)
				if mixedNames != nil {
					ccfg.VarNames = mixedNames
					ccfg.RegisterAlways = true
				}
				ccfg.Events = events
				ccfg.Costs = randomCosts(r, tree, path)
				label := "costs"
				if path {
					label = "pathological-costs"
				}
				if v, ok := compileVariant(w, tree, src, ccfg, label); ok {
					v.CostKind = label
					vs = append(vs, v)
				}
			}
		}
	}
	return vs
}

// matchEffects: does the observed effect sequence equal the expected one, where
// expected entries marked Optional may or may not occur?
func matchEffects(exp, got []Eff) bool {
	type key struct{ i, j int }
	memo := map[key]bool{}
	var rec func(i, j int) bool
	rec = func(i, j int) bool {
		if i == len(exp) {
			return j == len(got)
		}
		k := key{i, j}
		if v, ok := memo[k]; ok {
			return v
		}
		res := false
		e := exp[i]
		if j < len(got) && e.Get == got[j].Get && e.Name == got[j].Name && e.Args == got[j].Args && e.Res == got[j].Res {
			res = rec(i+1, j+1)
		}
		if !res && e.Optional {
			res = rec(i+1, j)
		}
		memo[k] = res
		return res
	}
	// fast path: no optional entries
	anyOpt := false
	for _, e := range exp {
		if e.Optional {
			anyOpt = true
			break
		}
	}
	if !anyOpt {
		if len(exp) != len(got) {
			return false
		}
		for i := range exp {
			e := exp[i]
			if e.Get != got[i].Get || e.Name != got[i].Name || e.Args != got[i].Args || e.Res != got[i].Res {
				return false
			}
		}
		return true
	}
	return rec(0, 0)
}

func effsText(e []Eff) string {
	s := make([]string, len(e))
	for i, x := range e {
		s[i] = x.String()
	}
	return "[" + strings.Join(s, " ") + "]"
}
