package main

// C12 — event reporting observes evaluation faithfully without changing it.

import (
	"context"
	"fmt"
	"math/rand"
	"strings"
	"sync"
	"time"

	"github.com/onheap/eval"
)

func init() {
	register(&Prop{
		ID: "C12",
		Rule: "Programs from all strata (plus shapes with >=2 two-operand applications in sequence) x PRNG-chosen optimization subsets (all 16 over a run) x {ReportEvent, Debug} x consumer timings: synchronous unbuffered consumer that deep-copies at receipt and retains the raw event, " +
			"buffered channel drained only after the evaluation returned, consumer that overwrites the received LOOP stack. Verdicts: result and Dump of the event-mode program equal the plain program's on every binding (Eval and TryEval); the OP_EXEC sequence of an Eval equals the reference sequence of operator applications of the dumped tree " +
			"(every reached non-and/or operator exactly once, in order, with its argument values and result/error; and/or applications optional but consistent); Params/Res/Err read after the evaluation finished equal the copy taken at receipt and the reference arguments; LOOP positions strictly increase and LOOP stacks do not change after receipt; " +
			"TryEval events are internally consistent (Res = operator applied to Params, no DNE in Params). Race phase: a consumer goroutine formats Params while the evaluator continues (hook yields), under the Go race detector. " +
			"A case is non-trivial when >=2 two-operand applications occur in one evaluation and the events are read after it; distinct = distinct (source, subset, mode, binding, timing).",
		Assumptions: []string{
			"reference interpreter (application sequence), independent Dump reader",
			"and/or applications are optional: the engine applies them only for two-leaf fast operators; emitting or omitting them for decided and/or is legitimate",
		},
		NumCases: func(tier string) int {
			if tier == "thorough" {
				return 800000
			}
			return 12000
		},
		Run:          c12Run,
		RaceNumCases: func(tier string) int { return map[string]int{"quick": 64, "thorough": 4000}[tier] },
		RaceRun:      c12Race,
		RaceProcs:    8,
		Floors: func(m *Merged, tier string) []string {
			var u []string
			for _, t := range []string{"sync", "buffered", "mutating"} {
				if m.C("nontrivial_"+t) < 1000 {
					u = append(u, fmt.Sprintf("only %d non-trivial cases with consumer timing %s", m.C("nontrivial_"+t), t))
				}
			}
			for _, c := range []string{"opexec_events", "loop_events", "tryeval_event_runs", "failed_applications_seen", "andor_applications_seen", "mode_debug", "mode_report_event", "events_retained_across_evaluations", "handle_debug_event_runs", "race_evaluations", "race_events_formatted", "caller_context_kind_2", "caller_context_kind_3", "handle_debug_event_list_runs"} {
				if m.C(c) == 0 {
					u = append(u, c+" = 0")
				}
			}
			return u
		},
	})
}

func c12Shapes(r *rand.Rand) *Node {
	iv := func() *Node { return Var([]string{"i0", "i1", "i2"}[r.Intn(3)], TInt) }
	k := func() *Node { return Lit(int64(1 + r.Intn(9))) }
	leaf := func() *Node {
		if r.Intn(2) == 0 {
			return iv()
		}
		return k()
	}
	bin := func(a, b *Node) *Node { return Op([]string{"+", "-", "*", "sub", "add"}[r.Intn(5)], TInt, a, b) }
	switch r.Intn(6) {
	case 0:
		return bin(bin(leaf(), leaf()), bin(leaf(), leaf()))
	case 1:
		return Op(">", TBool, bin(bin(leaf(), leaf()), leaf()), bin(leaf(), bin(leaf(), leaf())))
	case 2:
		return Op("and", TBool, Op(">", TBool, bin(iv(), k()), k()), Op("<", TBool, bin(k(), iv()), bin(iv(), iv())), Op("!=", TBool, iv(), k()))
	case 3:
		return If(Op(">", TBool, iv(), k()), bin(bin(iv(), k()), k()), bin(k(), bin(k(), iv())))
	case 4:
		return Op("+", TInt, bin(iv(), k()), bin(k(), iv()), bin(iv(), iv()), Op("ci", TInt, bin(iv(), k()), k()))
	default:
		return Op("or", TBool, Op("=", TBool, bin(iv(), iv()), k()), Op("and", TBool, Var("b0", TBool), Var("b1", TBool)), Op("cpos", TBool, bin(bin(iv(), k()), bin(k(), iv()))))
	}
}

func appsMatch(exp []App, got []EvRec) bool {
	type key struct{ i, j int }
	memo := map[key]bool{}
	eq := func(a App, e EvRec) bool {
		if a.Name != e.Op.OpName || len(a.Args) != len(e.Params) {
			return false
		}
		for i := range a.Args {
			if !valEq(a.Args[i], e.Params[i]) {
				return false
			}
		}
		if a.Failed != (e.Op.Err != nil) {
			return false
		}
		if a.Failed {
			// a registered operator may return a value next to its error: the event reports what the operator returned
			if _, custom := stdCustom[a.Name]; custom {
				return valEq(a.Res, e.Op.Res)
			}
			return true
		}
		return valEq(a.Res, e.Op.Res)
	}
	var rec func(i, j int) bool
	rec = func(i, j int) bool {
		if i == len(exp) {
			return j == len(got)
		}
		k := key{i, j}
		if v, ok := memo[k]; ok {
			return v
		}
		res := false
		if j < len(got) && eq(exp[i], got[j]) {
			res = rec(i+1, j+1)
		}
		if !res && exp[i].Optional {
			res = rec(i+1, j)
		}
		memo[k] = res
		return res
	}
	return rec(0, 0)
}

func appsText(a []App) string {
	s := ""
	for i, x := range a {
		if i > 0 {
			s += " "
		}
		s += x.String()
	}
	return "[" + s + "]"
}

func eventsText(evs []EvRec) string {
	s := ""
	for _, e := range evs {
		if e.Type != eval.OpExecEvent {
			continue
		}
		r := valText(e.Op.Res)
		if e.Op.Err != nil {
			r = "ERR"
		}
		s += fmt.Sprintf(" %s%s=%s", e.Op.OpName, argsText(e.Params), r)
	}
	return "[" + s + " ]"
}

func opExecOnly(evs []EvRec) []EvRec {
	var r []EvRec
	for _, e := range evs {
		if e.Type == eval.OpExecEvent {
			r = append(r, e)
		}
	}
	return r
}

// runWithConsumer evaluates e under one consumer timing and returns outcome and events.
// c12CallerCtx: what the caller put into Ctx.Ctx (0 nothing, 1 a live context, 2 one that is already cancelled, 3 one
// whose deadline has passed). The engine carries it for operators and fetchers; it never decides what is reported.
var c12CallerCtx int

// c12SharedStack: set by the buffered consumer when appending to one event's stack changed another event's stack
var c12SharedStack string

func runWithConsumer(e *eval.Expr, kind CallKind, f *RecFetcher, timing string) (Outcome, []EvRec) {
	ctx := &eval.Ctx{VariableFetcher: f}
	switch c12CallerCtx {
	case 1:
		ctx.Ctx = context.Background()
	case 2:
		c, cancel := context.WithCancel(context.Background())
		cancel()
		ctx.Ctx = c
	case 3:
		c, cancel := context.WithDeadline(context.Background(), time.Unix(1, 0))
		defer cancel()
		ctx.Ctx = c
	}
	call := func() (eval.Value, error) {
		if kind == CallTryEval {
			return e.TryEval(ctx)
		}
		return e.Eval(ctx)
	}
	switch timing {
	case "buffered":
		// capacity >= number of events; drained only after the evaluation returned
		ch := make(chan eval.Event, 70000)
		e.EventChan = ch
		o := guard(call)
		close(ch)
		var evs []EvRec
		for ev := range ch {
			evs = append(evs, snapshotEvent(ev))
		}
		// a consumer may append to a stack it received (an ordinary thing to do with a slice): that must not reach the
		// storage of any other event
		for i := range evs {
			if evs[i].Type == eval.LoopEvent {
				grown := append(evs[i].Raw.Stack, "appended by the consumer")
				_ = grown
			}
		}
		for i := range evs {
			if evs[i].Type != eval.LoopEvent {
				continue
			}
			for k := range evs[i].Stack {
				if k >= len(evs[i].Raw.Stack) || !valEq(evs[i].Stack[k], evs[i].Raw.Stack[k]) {
					c12SharedStack = fmt.Sprintf("LOOP event at position %d: slot %d was %s, after the consumer appended to the stacks of other events it is %s", evs[i].Loop.CurtIdx, k, valTextAny(evs[i].Stack[k]), valTextAny(evs[i].Raw.Stack[k]))
					break
				}
			}
		}
		return o, evs
	default:
		ch := make(chan eval.Event)
		e.EventChan = ch
		var evs []EvRec
		var wg sync.WaitGroup
		wg.Add(1)
		go func() {
			defer wg.Done()
			for ev := range ch {
				rec := snapshotEvent(ev)
				if timing == "mutating" && ev.EventType == eval.LoopEvent {
					for i := range ev.Stack {
						ev.Stack[i] = "overwritten by the consumer"
					}
				}
				evs = append(evs, rec)
			}
		}()
		var o Outcome
		func() {
			defer close(ch)
			o = guard(call)
		}()
		wg.Wait()
		return o, evs
	}
}

func c12Run(w *W, idx int) {
	r := w.Rand(idx)
	var tree *Node
	stratum := "binary-sequences"
	if idx%600 == 599 {
		// large programs dense in two-leaf operators: more than 16383 real nodes that still fit with their event nodes
		k := []int{5600, 6000, 7000, 8000}[r.Intn(4)]
		tree = sumTreeNode(k, func(int) *Node { return Op("+", TInt, Var("i0", TInt), Lit(int64(1))) })
		c12Big(w, r, tree)
		return
	}
	if idx%3 == 0 {
		tree = c12Shapes(r)
	} else {
		var s *Stratum
		s, _, tree = pickStratum(r, idx/3)
		stratum = s.Name
		if tree.Size() > 400 {
			g := s.Make(r)
			g.Budget = 200
			tree = g.Root(3)
		}
	}
	src := tree.Prefix()
	w.Inc("programs")
	w.Inc("programs_" + stratum)
	opts := OptSet((idx/3 + r.Intn(2)*7) % 16)
	mode := 1 + idx%2
	w.Inc([]string{"", "mode_report_event", "mode_debug"}[mode])
	undefined := r.Intn(2) == 0
	pcfg := cfgFor(tree, opts, undefined)
	plain, ok := compileVariant(w, tree, src, pcfg, "plain")
	if !ok {
		return
	}
	ecfg := pcfg
	ecfg.Events = mode
	evv, ok := compileVariant(w, tree, src, ecfg, "events")
	if !ok {
		return
	}
	w.Sample(stratum, src)
	if idx%40 == 7 && tree.Size() < 60 {
		// the library's own consumer: HandleDebugEvent prints every event; the evaluation must be undisturbed
		for _, b := range genBindings(r, tree, 2, 0) {
			po, _ := callExpr(plain.E, CallEval, fetcherFor(b, nil), nil, false)
			// a separately compiled instance and an unbuffered channel: HandleDebugEvent's goroutine reads the
			// EventChan field when it starts, the first (blocking) send guarantees it holds this channel
			hv, ok := compileVariant(w, tree, src, ecfg, "handle-debug-event")
			if !ok {
				break
			}
			ch := make(chan eval.Event)
			hv.E.EventChan = ch
			eval.HandleDebugEvent(hv.E)
			eo := guard(func() (eval.Value, error) { return hv.E.Eval(&eval.Ctx{VariableFetcher: fetcherFor(b, nil)}) })
			close(ch)
			w.Evals += 2
			w.Inc("handle_debug_event_runs")
			if !outcomeEq(po, eo) {
				w.Fail("event-mode-changes-result/HandleDebugEvent", "with HandleDebugEvent as consumer: plain gives %s, event mode gives %s\n%s", po, eo, describeCase(src, ecfg, b))
			}
		}
	}
	if idx%40 == 8 {
		c12DebugHelperLists(w, r)
	}
	if idx%40 == 28 {
		c12DyingOperator(w, r)
	}
	if idx%40 == 18 {
		c12DebugSession(w, r)
	}
	if idx%40 == 38 {
		c12NestedEvents(w, r)
	}
	if plain.Dump != evv.Dump {
		w.Fail("event-mode-changes-dump", "Dump differs between the plain and the event-mode program\nsource: %s\nconfig: %s\nplain:  %s\nevents: %s", src, ecfg, oneLine(plain.Dump), oneLine(evv.Dump))
	}
	if evv.DumpErr != nil {
		return
	}
	fe := opts&OptFE != 0
	// events retained across later evaluations of the same Expr
	type held struct {
		evs  []EvRec
		desc string
	}
	var retained []held
	defer func() {
		for _, h := range retained {
			w.Inc("events_retained_across_evaluations")
			for _, e := range h.evs {
				if e.Type == eval.LoopEvent {
					if len(e.Raw.Stack) != len(e.Stack) {
						w.Fail("loop-stack-changed-by-later-evaluation", "a LOOP stack received in one evaluation changed length after later evaluations of the same Expr\n%s", h.desc)
						return
					}
					for i := range e.Stack {
						if !valEq(e.Stack[i], e.Raw.Stack[i]) {
							w.Fail("loop-stack-changed-by-later-evaluation", "a LOOP stack received in one evaluation was overwritten by a later evaluation of the same Expr: position %d slot %d was %s, now %s\n%s", e.Loop.CurtIdx, i, valTextAny(e.Stack[i]), valTextAny(e.Raw.Stack[i]), h.desc)
							return
						}
					}
				} else if raw, ok := e.Raw.Data.(eval.OpEventData); ok {
					for i := range e.Params {
						if i >= len(raw.Params) || !valEq(raw.Params[i], e.Params[i]) {
							w.Fail("opexec-params-changed-by-later-evaluation", "OP_EXEC %s arguments received in one evaluation changed after later evaluations of the same Expr: at receipt %s, now %s\n%s", e.Op.OpName, argsText(e.Params), argsText(toIfaces(raw.Params)), h.desc)
							return
						}
					}
				}
			}
		}
	}()
	for bi, b := range genBindings(r, tree, 3, 0.05) {
		bound := allBound(tree, b)
		for _, kind := range []CallKind{CallEval, CallTryEval} {
			if kind == CallTryEval {
				// make a third of the variables unavailable
				av := map[string]bool{}
				for n := range b.Vals {
					av[n] = r.Intn(3) != 0
				}
				b = Binding{Vals: b.Vals, Avail: av}
				w.Inc("tryeval_event_runs")
			}
			po, _ := callExpr(plain.E, kind, fetcherFor(b, nil), nil, false)
			w.Evals++
			timing := []string{"sync", "buffered", "mutating"}[(bi+int(kind)+idx)%3]
			c12CallerCtx = (bi + idx/3) % 4
			w.Inc(fmt.Sprintf("caller_context_kind_%d", c12CallerCtx))
			eo, evs := runWithConsumer(evv.E, kind, fetcherFor(b, nil), timing)
			c12CallerCtx = 0
			if c12SharedStack != "" {
				w.Fail("loop-stack-shares-storage-with-other-events", "%s\n%s", c12SharedStack, describeCase(src, ecfg, b))
				c12SharedStack = ""
			}
			w.Evals++
			what := []string{"Eval", "TryEval"}[kind]
			if eo.Panic != nil {
				w.Fail("panic/"+normPanic(eo.Panic)+"@"+panicSite(eo.Stack), "%s in event mode panicked: %v\n%s\n%s", what, eo.Panic, describeCase(src, ecfg, b), eo.Stack)
				continue
			}
			same := (po.Err == nil) == (eo.Err == nil)
			if same && po.Err == nil {
				same = valEq(po.V, eo.V)
			} else if same {
				// (the value a failing operator returns next to its error is handed on by Eval in both modes)
				same = (po.Err == eo.Err || po.Err.Error() == eo.Err.Error()) && valEq(po.V, eo.V)
			}
			if !same {
				w.Fail("event-mode-changes-result/"+timing, "%s: plain program gives %s, event-mode program gives %s (consumer timing %s)\n%s", what, po, eo, timing, describeCase(src, ecfg, b))
				continue
			}
			if timing != "mutating" {
				retained = append(retained, held{evs: evs, desc: describeCase(src, ecfg, b)})
			}
			ops := opExecOnly(evs)
			w.Count("opexec_events", int64(len(ops)))
			// LOOP events: strictly increasing positions, private stack
			last := int16(-1)
			for _, e := range evs {
				if e.Type != eval.LoopEvent {
					continue
				}
				w.Inc("loop_events")
				if e.Loop.CurtIdx <= last {
					w.Fail("loop-positions-not-increasing", "LOOP positions not strictly increasing: %d after %d\n%s", e.Loop.CurtIdx, last, describeCase(src, ecfg, b))
					break
				}
				last = e.Loop.CurtIdx
				if timing != "mutating" {
					if len(e.Raw.Stack) != len(e.Stack) {
						w.Fail("loop-stack-changed-after-receipt", "LOOP stack length changed after receipt\n%s", describeCase(src, ecfg, b))
						break
					}
					for i := range e.Stack {
						if !valEq(e.Stack[i], e.Raw.Stack[i]) {
							w.Fail("loop-stack-changed-after-receipt", "LOOP stack of position %d changed after receipt: slot %d was %s, now %s\n%s", e.Loop.CurtIdx, i, valTextAny(e.Stack[i]), valTextAny(e.Raw.Stack[i]), describeCase(src, ecfg, b))
							break
						}
					}
				}
			}
			// retained events: contents now vs deep copy at receipt
			binaryApps := 0
			for _, e := range ops {
				raw := e.Raw.Data.(eval.OpEventData)
				if len(raw.Params) == 2 {
					binaryApps++
				}
				if e.Op.Err != nil {
					w.Inc("failed_applications_seen")
				}
				if isAndName(e.Op.OpName) || isOrName(e.Op.OpName) {
					w.Inc("andor_applications_seen")
				}
				if len(raw.Params) != len(e.Params) {
					w.Fail("opexec-params-changed-after-receipt", "OP_EXEC %s: number of Params changed after receipt", e.Op.OpName)
					continue
				}
				for i := range e.Params {
					if !valEq(raw.Params[i], e.Params[i]) {
						w.Fail("opexec-params-changed-after-receipt/"+timing, "OP_EXEC %s: argument %d was %s when the event was received and is %s after the evaluation finished (consumer timing %s)\n%s\nevents: %s",
							e.Op.OpName, i, valTextAny(e.Params[i]), valTextAny(raw.Params[i]), timing, describeCase(src, ecfg, b), eventsText(evs))
						break
					}
				}
				for _, p := range e.Params {
					if isDNE(p) {
						w.Fail("dne-in-opexec-params", "OP_EXEC %s carries DNE in its arguments\n%s", e.Op.OpName, describeCase(src, ecfg, b))
					}
				}
			}
			if binaryApps >= 2 {
				w.Inc("nontrivial_" + timing)
				w.Nontrivial(src, opts.String(), fmt.Sprint(mode), b.String(), timing, what)
			}
			if kind == CallEval {
				if !bound {
					continue
				}
				env := refEnv(b)
				env.RecordApps = true
				env.FastOpt = fe
				env.Eval(evv.DumpTree)
				if !appsMatch(env.Apps, ops) {
					w.Fail("opexec-sequence-differs-from-evaluation/"+timing, "the OP_EXEC events are not the operator applications of this evaluation (consumer timing %s)\nexpected (?=optional): %s\nobserved:              %s\n%s\ndump: %s",
						timing, appsText(env.Apps), eventsText(evs), describeCase(src, ecfg, b), oneLine(evv.Dump))
				}
			} else {
				// TryEval: internal consistency
				for _, e := range ops {
					var want interface{}
					var werr error
					if op, isCustom := stdCustom[e.Op.OpName]; isCustom {
						want, werr = op.Fn(append([]interface{}{}, e.Params...))
					} else {
						want, werr = applyBuiltin(e.Op.OpName, e.Params)
					}
					if (werr != nil) != (e.Op.Err != nil) || (werr == nil && !valEq(want, e.Op.Res)) {
						w.Fail("tryeval-opexec-inconsistent", "TryEval OP_EXEC %s%s reports %v/%v but the operator applied to these arguments gives %s/%v\n%s", e.Op.OpName, argsText(e.Params), e.Op.Res, e.Op.Err, valText(want), werr, describeCase(src, ecfg, b))
					}
				}
			}
		}
	}
}

// race phase: a consumer that only reads the events it received, concurrently with the evaluator
func c12Race(w *W, idx int) {
	r := w.Rand(idx)
	for rep := 0; rep < 12; rep++ {
		tree := c12Shapes(r)
		if rep%4 == 3 {
			_, _, tree = pickStratum(r, r.Intn(len(strata)))
			if tree.Size() > 300 {
				continue
			}
		}
		opts := OptSet(r.Intn(16))
		cfg := cfgFor(tree, opts, false)
		cfg.Events = 1 + r.Intn(2)
		v, ok := compileVariant(w, tree, tree.Prefix(), cfg, "race")
		if !ok {
			continue
		}
		for _, b := range genBindings(r, tree, 2, 0) {
			for _, buffered := range []int{0, 4} {
				ch := make(chan eval.Event, buffered)
				v.E.EventChan = ch
				var wg sync.WaitGroup
				formatted := 0
				wg.Add(1)
				go func() {
					defer wg.Done()
					sink := 0
					for ev := range ch {
						// only read what was received
						if d, ok := ev.Data.(eval.OpEventData); ok {
							sink += len(fmt.Sprint(d.OpName, d.Params, d.Res, d.Err))
							formatted++
						}
						sink += len(fmt.Sprint(ev.Stack))
					}
					_ = sink
				}()
				tr := NewTracer()
				tr.YieldMask = 1
				tr.rng = uint32(r.Int31())
				ctx := &eval.Ctx{VariableFetcher: fetcherFor(b, nil), Ctx: ctxWithTracer(tr)}
				kind := r.Intn(2)
				o := guard(func() (eval.Value, error) {
					defer close(ch)
					if kind == 0 {
						return v.E.Eval(ctx)
					}
					return v.E.TryEval(ctx)
				})
				wg.Wait()
				w.Evals++
				w.Inc("race_evaluations")
				w.Count("race_events_formatted", int64(formatted))
				w.Count("race_hook_yields", tr.Switches)
				if o.Panic != nil {
					w.Fail("panic/"+normPanic(o.Panic)+"@"+panicSite(o.Stack), "evaluation panicked in the race workload: %v", o.Panic)
				}
			}
		}
	}
}

// c12Big: event mode on a large program: same result, events arrive, no panic.
func c12Big(w *W, r *rand.Rand, tree *Node) {
	src := tree.Prefix()
	w.Inc("programs")
	w.Inc("programs_big")
	b := Binding{Vals: map[string]interface{}{"i0": int64(2)}}
	for _, opts := range []OptSet{OptFE, OptAll, OptNone} {
		pcfg := CaseCfg{Opts: opts, VarNames: []string{"i0"}}
		plain, ok := compileVariant(w, tree, src, pcfg, "plain")
		if !ok {
			continue
		}
		ecfg := pcfg
		ecfg.Events = 1 + r.Intn(2)
		evv, ok := compileVariant(w, tree, src, ecfg, "events")
		if !ok {
			continue // rejected by the capacity limits (legitimate when the event nodes do not fit) or already reported
		}
		w.Inc("big_event_programs_compiled")
		po, _ := callExpr(plain.E, CallEval, fetcherFor(b, nil), nil, false)
		eo, evs := runWithConsumer(evv.E, CallEval, fetcherFor(b, nil), "buffered")
		w.Evals += 2
		w.Count("opexec_events", int64(len(opExecOnly(evs))))
		if !outcomeEq(po, eo) {
			w.Fail("event-mode-changes-result/big", "large program (%d source nodes): plain gives %s, event mode gives %s\nconfig: %s", tree.Size(), po, eo, ecfg)
		}
	}
}

// c12DebugHelperLists: the library's own consumer (HandleDebugEvent) formats what it receives; the lists it prints belong
// to the compiled program (literals) and to the caller (variables) and stay as they are.
func c12DebugHelperLists(w *W, r *rand.Rand) {
	n := 9 + r.Intn(8)
	lit := make([]string, n)
	varList := make([]string, n)
	ints := make([]int64, n)
	for i := range lit {
		lit[i] = fmt.Sprintf("lang%d", i)
		varList[i] = fmt.Sprintf("tag%d", i)
		ints[i] = int64(i * 3)
	}
	probe := []int{8, n - 1, 0, 4}[r.Intn(4)]
	tree := Op("or", TBool,
		Op("in", TBool, Var("s0", TStr), Lit(lit)),
		Op("overlap", TBool, Var("ls0", TSList), Lit([]string{"none", varList[probe]})),
		Op("in", TBool, Var("i0", TInt), Lit(ints)))
	src := tree.Prefix()
	vals := map[string]interface{}{"s0": "absent", "ls0": varList, "i0": int64(-1)}
	if r.Intn(2) == 0 {
		vals["s0"] = lit[probe]
	}
	mode := 1 + r.Intn(2)
	cfg := cfgFor(tree, OptSet(r.Intn(16)), false)
	plain, ok := compileVariant(w, tree, src, cfg, "plain")
	if !ok {
		return
	}
	ecfg := cfg
	ecfg.Events = mode
	hv, ok := compileVariant(w, tree, src, ecfg, "handle-debug-event")
	if !ok {
		return
	}
	want, _ := callExpr(plain.E, CallEval, fetcherFor(Binding{Vals: vals}, nil), nil, false)
	before := append([]string{}, varList...)
	for round := 0; round < 2; round++ {
		ch := make(chan eval.Event)
		hv.E.EventChan = ch
		eval.HandleDebugEvent(hv.E)
		kind := []CallKind{CallEval, CallTryEval}[round]
		got := guard(func() (eval.Value, error) {
			if kind == CallTryEval {
				return hv.E.TryEval(&eval.Ctx{VariableFetcher: fetcherFor(Binding{Vals: vals}, nil)})
			}
			return hv.E.Eval(&eval.Ctx{VariableFetcher: fetcherFor(Binding{Vals: vals}, nil)})
		})
		close(ch)
		time.Sleep(2 * time.Millisecond) // the helper may still be formatting the last event it received
		w.Evals++
		w.Inc("handle_debug_event_list_runs")
		d, _ := dumpGuard(hv.E)
		switch {
		case !outcomeEq(want, got):
			w.Fail("event-mode-changes-result/HandleDebugEvent", "round %d with HandleDebugEvent as consumer: plain gives %s, event mode gives %s\nsource: %s", round+1, want, got, src)
			return
		case d != hv.Dump:
			w.Fail("program-changed-by-HandleDebugEvent", "the Dump of the program differs after HandleDebugEvent consumed its events\nbefore: %s\nafter:  %s", oneLine(hv.Dump), oneLine(d))
			return
		case !valEq(before, varList):
			w.Fail("callers-list-changed-by-HandleDebugEvent", "the caller's list variable was changed while HandleDebugEvent consumed the events: %v -> %v", before, varList)
			return
		}
	}
}

// c12DyingOperator: a registered operator with an unchecked type assertion dies with a run-time error when a lookup hands
// it nil or a value of another type. Whatever the library makes of that (the pinned one lets the panic reach the caller),
// it makes the same of it with and without event reporting: an evaluation that dies without events does not quietly
// carry on, with a made-up operand, when events are on.
func c12DyingOperator(w *W, r *rand.Rand) {
	unsafeLen := func(_ *eval.Ctx, p []eval.Value) (eval.Value, error) { return int64(len(p[0].(string))), nil }
	unsafeIdx := func(_ *eval.Ctx, p []eval.Value) (eval.Value, error) { return p[0].([]int64)[p[1].(int64)], nil }
	srcs := []string{
		"(= (unsafe_len s0) 0)", "(and b0 (> (unsafe_len s0) 2))", "(if b0 (unsafe_len s0) 1)", "(+ 1 (unsafe_len s0) (unsafe_len s0))",
		"(or (> (unsafe_idx li0 i0) 3) b0)", "(not (= (unsafe_idx li0 i0) (unsafe_len s0)))",
	}
	src := srcs[r.Intn(len(srcs))]
	opts := OptSet(r.Intn(16))
	mk := func(events int) (*eval.Expr, *eval.Config, bool) {
		cc := buildConfig(CaseCfg{Opts: opts, Events: events, VarNames: []string{"s0", "b0", "li0", "i0"}}, nil)
		cc.OperatorMap["unsafe_len"] = unsafeLen
		cc.OperatorMap["unsafe_idx"] = unsafeIdx
		e, co := compileGuard(cc, src)
		if co.Panic != nil || co.Err != nil {
			w.Fail("dying-operator/compile", "%s does not compile: %s", src, co)
			return nil, nil, false
		}
		return e, cc, true
	}
	plain, pcc, ok := mk(0)
	if !ok {
		return
	}
	for _, mode := range []int{1, 2} {
		ev, _, ok := mk(mode)
		if !ok {
			return
		}
		for _, s0 := range []interface{}{"abc", "", nil, int64(3)} {
			for _, i0 := range []int64{0, 1, 5, -1} {
				vals := map[string]interface{}{"s0": s0, "b0": r.Intn(2) == 0, "li0": []int64{4, 2}, "i0": i0}
				for _, kind := range []CallKind{CallEval, CallTryEval} {
					po, _ := callExpr(plain, kind, &RecFetcher{Vals: vals, Keys: pcc.VariableKeyMap}, nil, false)
					eo, _ := callExpr(ev, kind, &RecFetcher{Vals: vals, Keys: pcc.VariableKeyMap}, nil, true)
					w.Evals += 2
					w.Inc("dying_operator_calls")
					if po.Panic != nil {
						w.Inc("dying_operator_panics_without_events")
					}
					if !outcomeEq(po, eo) {
						w.Fail("event-mode-changes-result/dying-operator", "an operator that dies with a run-time error (unchecked type assertion / index): without events the evaluation gives %s, with %s it gives %s\nsource: %s (options %s)\nbinding: s0=%#v i0=%d b0=%v", po, []string{"", "ReportEvent", "Debug"}[mode], eo, src, opts, s0, i0, vals["b0"])
						return
					}
				}
			}
		}
	}
}

// c12DebugSession: one Debug/ReportEvent program traced by the library's own HandleDebugEvent for a whole session of
// evaluations, successful and failing ones in turn (a failing evaluation must not leave the consumer in a state that
// disturbs - or blocks - the next one). Every evaluation returns what the plain program returns. An evaluation that never
// returns is observed by the worker watchdog (2.3).
func c12DebugSession(w *W, r *rand.Rand) {
	srcs := []string{
		"(if (> (/ 10 i0) 2) (+ i0 1) (- i0 1))",
		"(and (> i0 -5) (= (% 7 i0) 1) b0)",
		"(+ 1 (ci i0 2) (/ 6 i0))",
	}
	src := srcs[r.Intn(len(srcs))]
	opts := OptSet(r.Intn(16))
	mode := 1 + r.Intn(2)
	mk := func(events int) (*eval.Expr, *eval.Config, bool) {
		cc := buildConfig(CaseCfg{Opts: opts, Events: events, VarNames: []string{"i0", "b0"}, Custom: stdCustom}, nil)
		e, co := compileGuard(cc, src)
		if co.Panic != nil || co.Err != nil {
			w.Fail("debug-session/compile", "%s does not compile: %s", src, co)
			return nil, nil, false
		}
		return e, cc, true
	}
	plain, pcc, ok := mk(0)
	if !ok {
		return
	}
	ev, _, ok := mk(mode)
	if !ok {
		return
	}
	ch := make(chan eval.Event)
	ev.EventChan = ch
	eval.HandleDebugEvent(ev)
	closed := false
	defer func() {
		if !closed {
			close(ch)
		}
	}()
	// afterwards: the same program with a channel and a consumer of the caller's own
	defer func() {
		if closed {
			return
		}
		close(ch)
		closed = true
		vals := map[string]interface{}{"i0": int64(4), "b0": true}
		po, _ := callExpr(plain, CallEval, &RecFetcher{Vals: vals, Keys: pcc.VariableKeyMap}, nil, false)
		eo, evs := callExpr(ev, CallEval, &RecFetcher{Vals: vals, Keys: pcc.VariableKeyMap}, nil, true)
		w.Evals += 2
		w.Inc("own_consumer_after_debug_session")
		if !outcomeEq(po, eo) || len(evs) == 0 {
			w.Fail("event-mode-changes-result/own-consumer-after-HandleDebugEvent", "after a HandleDebugEvent session was closed, the same program evaluated with a channel and consumer of the caller's own: plain gives %s, traced gives %s, %d events received\nsource: %s (options %s, mode %d)", po, eo, len(evs), src, opts, mode)
		}
	}()
	for step, i0 := range []int64{2, 0, 5, 0, 2, 1, 0, 3} {
		vals := map[string]interface{}{"i0": i0, "b0": step%2 == 0}
		kind := []CallKind{CallEval, CallTryEval}[r.Intn(2)]
		po, _ := callExpr(plain, kind, &RecFetcher{Vals: vals, Keys: pcc.VariableKeyMap}, nil, false)
		eo := guard(func() (eval.Value, error) {
			ctx := &eval.Ctx{VariableFetcher: &RecFetcher{Vals: vals, Keys: pcc.VariableKeyMap}}
			if kind == CallTryEval {
				return ev.TryEval(ctx)
			}
			return ev.Eval(ctx)
		})
		w.Evals += 2
		w.Inc("debug_session_evaluations")
		if po.Err != nil {
			w.Inc("debug_session_failing_evaluations")
		}
		if !outcomeEq(po, eo) {
			w.Fail("event-mode-changes-result/HandleDebugEvent-session", "evaluation %d of a session traced by HandleDebugEvent (i0=%d): plain gives %s, traced gives %s\nsource: %s (options %s, mode %d)", step+1, i0, po, eo, src, opts, mode)
			return
		}
	}
}

// c12NestedEvents: a rule whose registered operator evaluates a sub-rule on the context it was handed, both rules
// reporting events, each on a channel of its own. Every rule's stream holds exactly its own applications: the outer
// stream is what it is when the sub-rule reports nothing, the inner stream what the sub-rule reports when evaluated alone.
func c12NestedEvents(w *W, r *rand.Rand) {
	opts := OptSet(r.Intn(16))
	mode := 1 + r.Intn(2)
	innerSrc := []string{"(+ i0 (* 2 3) 1)", "(- (* i0 i0) (+ 1 1 1))", "(if (> i0 2) (+ i0 1) (- i0 1 1))"}[r.Intn(3)]
	outerSrc := []string{"(+ (sub_rule) (- i0 1) (* i0 2))", "(if (> (sub_rule) 3) (- i0 (sub_rule)) (* 2 i0 1))", "(* 1 (+ (sub_rule) i0 i0) (- i0 7))"}[r.Intn(3)]
	viaTry := r.Intn(2) == 0
	mkInner := func(events int) *eval.Expr {
		cc := buildConfig(CaseCfg{Opts: opts, Events: events, VarNames: []string{"i0"}}, nil)
		e, co := compileGuard(cc, innerSrc)
		if co.Panic != nil || co.Err != nil {
			return nil
		}
		return e
	}
	names := func(evs []EvRec) string {
		var sb strings.Builder
		for _, ev := range opExecOnly(evs) {
			fmt.Fprintf(&sb, "%s%s=%s; ", ev.Op.OpName, argsText(ev.Params), valTextAny(ev.Op.Res))
		}
		return sb.String()
	}
	vals := map[string]interface{}{"i0": int64(r.Intn(7))}
	run := func(inner *eval.Expr, innerEvents bool) (Outcome, string, string, bool) {
		cc := buildConfig(CaseCfg{Opts: opts, Events: mode, VarNames: []string{"i0"}}, nil)
		var innerStream string
		cc.OperatorMap["sub_rule"] = func(ctx *eval.Ctx, _ []eval.Value) (eval.Value, error) {
			call := func() (eval.Value, error) {
				if viaTry {
					return inner.TryEval(ctx)
				}
				return inner.Eval(ctx)
			}
			if !innerEvents {
				return call()
			}
			var v eval.Value
			var err error
			evs := collectEvents(inner, 0, func() { v, err = call() })
			innerStream += names(evs)
			return v, err
		}
		e, co := compileGuard(cc, outerSrc)
		if co.Panic != nil || co.Err != nil {
			return co, "", "", false
		}
		var o Outcome
		evs := collectEvents(e, 0, func() {
			o = guard(func() (eval.Value, error) {
				return e.Eval(&eval.Ctx{VariableFetcher: &RecFetcher{Vals: vals, Keys: cc.VariableKeyMap}})
			})
		})
		return o, names(evs), innerStream, true
	}
	plainInner, evInner := mkInner(0), mkInner(mode)
	if plainInner == nil || evInner == nil {
		w.Fail("nested-events/compile", "%s does not compile", innerSrc)
		return
	}
	o1, outer1, _, ok1 := run(plainInner, false)
	o2, outer2, inner2, ok2 := run(evInner, true)
	if !ok1 || !ok2 {
		w.Fail("nested-events/compile", "%s does not compile", outerSrc)
		return
	}
	// the sub-rule evaluated alone
	var alone string
	{
		var evs []EvRec
		cc := buildConfig(CaseCfg{Opts: opts, VarNames: []string{"i0"}}, nil)
		evs = collectEvents(evInner, 0, func() {
			guard(func() (eval.Value, error) {
				ctx := &eval.Ctx{VariableFetcher: &RecFetcher{Vals: vals, Keys: cc.VariableKeyMap}}
				if viaTry {
					return evInner.TryEval(ctx)
				}
				return evInner.Eval(ctx)
			})
		})
		alone = names(evs)
	}
	w.Evals += 3
	w.Inc("nested_event_rules")
	calls := strings.Count(outer1, "sub_rule")
	if !outcomeEq(o1, o2) || outer1 != outer2 || inner2 != strings.Repeat(alone, calls) {
		w.Fail("events/nested-rules-streams-mixed", "an event-reporting rule whose operator evaluates an event-reporting sub-rule (own channel) on the same context\nouter: %s   sub-rule: %s   (options %s, mode %d, i0=%v, sub-rule through TryEval: %v)\nresult with a silent sub-rule: %s, with a reporting one: %s\nouter OP_EXEC stream with a silent sub-rule:   %s\nouter OP_EXEC stream with a reporting sub-rule: %s\nsub-rule stream inside the outer evaluation: %s\nsub-rule stream alone (x%d expected):          %s",
			outerSrc, innerSrc, opts, mode, vals["i0"], viaTry, o1, o2, outer1, outer2, inner2, calls, alone)
	}
}
