package main

// C06 — Compile and evaluation are total: result or error, never panic or hang.

import (
	"bytes"
	"fmt"
	"math/rand"
	"os"
	"os/exec"
	"path/filepath"
	"strconv"
	"strings"
	"time"

	"github.com/onheap/eval"
)

func init() {
	register(&Prop{
		ID: "C06",
		Rule: "Inputs: valid programs of every stratum in prefix and infix notation with 1-5 source mutations (truncate, delete, insert/replace fragment, duplicate, swap, byte-level cut), fragment soup, " +
			"a fixed list of empty/blank/comment-only/directive-only and historically crashing inputs, list/set equality programs, hostile bindings (nil, lists, strings, booleans, integers, sets for every variable regardless of the expected type), " +
			"large and deeply nested inputs. Every input is compiled under a PRNG-chosen option subset incl. ReportEvent/Debug/undefined variables; whatever compiles is evaluated (Eval, TryEval), dumped (Dump, DumpTable). " +
			"Observers: recover() per call, worker-process death and watchdog attributed to the journaled case, Compile returning (nil,nil) or (expr,err), step hook (strictly increasing positions), LOOP event positions. " +
			"An input is non-trivial when it is rejected with an error or compiles after >=1 mutation; distinct = distinct source text.",
		Assumptions: []string{
			"termination of code without a step hook (lexer, parser, optimizers, Dump, formatter) is observed by a wall-clock watchdog only; a firing counts only if it reproduces alone",
			"Dump depth capped at 300 in workloads (quadratic in depth)",
			"fetchers and operators supplied by the harness are well-behaved",
		},
		NumCases: func(tier string) int {
			if tier == "thorough" {
				return 100000
			}
			return 3000
		},
		Run:      c06Run,
		Floors:   c06Floors,
		Watchdog: 120,
	})
}

var c06Fragments = []string{
	"(", ")", "[", "]", ",", ";", "\"", " ", "\n", "\t", "((", "))", "()", "[]", "(and", "(or ", "(if ", "(not ", "(= ", "if", "if(", "and(", "let", "map", "filter", "any",
	"true", "false", "!", "! ", "!!", "!=", "==", "&&", "||", "&", "|", "+", "-", "*", "/", "%", "<", ">=", "in", "overlap", "between", "version", "date", "t_date",
	"9223372036854775807", "9223372036854775808", "-9223372036854775808", "99999999999999999999999", "0", "-0", "+1", "1.5", "1e9", "0x10", "a.b", ".a", "a.", "a..b", "_", "_x", "x_1", "1x",
	"\"a\"", "\"\"", "\"(\"", "\" ; \"", "\u00a0", "\u3000", " ", "é", "λx", "变量", "\u200b", "\ufeff", "\x00", "\xff", "\\", "'", "`",
	";;;; optimize:false\n", ";;;; reordering:true,fast_evaluation:false\n", ";;;; bogus:1\n", ";;;;\n", ";;;; optimize\n", ";;;; optimize:maybe\n", "; c\n", ";\n",
	"b0", "i0", "s0", "KT", "KI", "cb", "cz", "(cz)", "cz()", "f(", "f(,", ",,", "(,)", "[1 2", "[1 \"a\"]", "[a]", "(1 2 3)", "(\"a\" 1)", "(1 (2))",
}

func mutateSource(r *rand.Rand, src string, w *W) string {
	rs := []rune(src)
	nm := 1 + r.Intn(5)
	for m := 0; m < nm; m++ {
		if len(rs) == 0 {
			rs = []rune(c06Fragments[r.Intn(len(c06Fragments))])
			continue
		}
		pos := r.Intn(len(rs) + 1)
		switch op := r.Intn(8); op {
		case 0: // truncate
			w.Inc("mut_truncate")
			rs = rs[:pos]
		case 1: // delete a range
			w.Inc("mut_delete")
			end := pos + 1 + r.Intn(6)
			if end > len(rs) {
				end = len(rs)
			}
			rs = append(append([]rune{}, rs[:pos]...), rs[end:]...)
		case 2, 3: // insert a fragment
			w.Inc("mut_insert")
			f := []rune(c06Fragments[r.Intn(len(c06Fragments))])
			rs = append(append(append([]rune{}, rs[:pos]...), f...), rs[pos:]...)
		case 4: // replace a range with a fragment
			w.Inc("mut_replace")
			end := pos + 1 + r.Intn(4)
			if end > len(rs) {
				end = len(rs)
			}
			f := []rune(c06Fragments[r.Intn(len(c06Fragments))])
			rs = append(append(append([]rune{}, rs[:pos]...), f...), rs[end:]...)
		case 5: // duplicate a range
			w.Inc("mut_duplicate")
			end := pos + 1 + r.Intn(12)
			if end > len(rs) {
				end = len(rs)
			}
			d := append([]rune{}, rs[pos:end]...)
			rs = append(append(append([]rune{}, rs[:end]...), d...), rs[end:]...)
		case 6: // swap two tokens (whitespace separated)
			w.Inc("mut_swap")
			f := strings.Fields(string(rs))
			if len(f) >= 2 {
				i, j := r.Intn(len(f)), r.Intn(len(f))
				f[i], f[j] = f[j], f[i]
				rs = []rune(strings.Join(f, " "))
			}
		default: // drop the first or last character
			w.Inc("mut_edge")
			if r.Intn(2) == 0 {
				rs = rs[1:]
			} else {
				rs = rs[:len(rs)-1]
			}
		}
	}
	s := string(rs)
	if r.Intn(40) == 0 && len(s) > 1 {
		// byte-level cut: may leave invalid UTF-8
		w.Inc("mut_bytecut")
		s = s[:r.Intn(len(s))]
	}
	return s
}

func fragmentSoup(r *rand.Rand) string {
	var sb strings.Builder
	n := 1 + r.Intn(14)
	for i := 0; i < n; i++ {
		sb.WriteString(c06Fragments[r.Intn(len(c06Fragments))])
		if r.Intn(2) == 0 {
			sb.WriteByte(' ')
		}
	}
	return sb.String()
}

var c06Fixed = []string{
	"", " ", "\n", "\t \n", "\u00a0", ";", ";; c", "; c\n", ";;;; optimize:false", ";;;; optimize:false\n", ";;;; optimize:false\n\n;c\n  ",
	"(", ")", "()", "(())", "[", "]", "[]", "a[", "a [", "f([", "[1", "[\"a\"", "[1 2", ",", "(,)", "f(,)", "f(a,)", "f(,a)",
	"+", "1 +", "+ 1", "1 + +", "sub(/)", "!", "! !", "! ! a", "!!a", "a !", "a ! b", "true && ! ! true", "1 + ! a", "a * ! b", "! a + b", "!(", "!)",
	"(= (1 2) (1 2))", "(!= (1 2) (1 2))", "(eq () ())", "(= () () ())", "(= (1 2) 3)", "(ne (\"a\") (\"a\"))", "(= li0 li0)", "(= seti seti)", "(ne sets sets)", "(= li0 1 li0)",
	"(and)", "(or)", "(not)", "(if)", "(if true)", "(if true 1)", "(if true 1 2 3)", "(+)", "(+ 1)", "(between 1)", "(in)", "(overlap (1))", "(version)", "(date)", "(t_date \"x\")",
	"(let x 1)", "(map)", "(any x)", "(filter a b)", "(reduce)", "(collect)", "(all)",
	"\"", "\"a", "(\"", "(= \"a\" \"", "(a", "(1)", "(\"a\")", "(1 2)", "((1 2))", "(and (1 2))", "(in 1 ())", "(in 1 (()))",
	"(and true", "and true false)", "(and true false))", "((and true false)", "(and (or true) false", "(+ 1 2) (+ 3 4)", "1", "true", "b0", "\"s\"",
	"if(true, 1, 2)", "if(true, 1)", "if()", "if(,,)", "f()", "cz()", "cz( )", "(cz)", "cb(true)", "cb(true,)", "[] []", "[1] [2]", "in(1, [1 2])", "in(1, [1, 2])", "overlap([], [])",
	"9223372036854775808", "(+ 9223372036854775807 1)", "(- -9223372036854775808 1)", "(/ -9223372036854775808 -1)", "(% -9223372036854775808 -1)", "(* 4611686018427387904 2)",
	"(version \"1.2.3\" 0)", "(version \"1.2.3\" 5)", "(version \"1.2.3\" -1)", "(version \"99999999999999999999\")", "(version \"1..2\")", "(version \"\")", "(version \".\")",
	"(date \"\")", "(date \"2021-02-30\")", "(date \"2021-01-01\" \"\")", "(t_date \"2021\" \"2006\")", "(datetime \"2021-01-01 25:00:00\")", "(date \"0000-00-00\")", "(date \"9999-12-31\")", "(date \"10000-01-01\")",
}

func c06Run(w *W, idx int) {
	r := w.Rand(idx)
	inputsPerCase := 60
	kind := idx % 14
	if w.Thorough() && idx%200 == 199 {
		c06Huge(w, r, idx)
		return
	}
	if idx == 0 {
		// the fixed list, every input under every option subset and both notations
		for _, s := range c06Fixed {
			for _, infix := range []bool{false, true} {
				for _, o := range []OptSet{OptNone, OptAll, OptCF, OptFE | OptRN} {
					for ev := 0; ev < 3; ev++ {
						c06Input(w, r, "fixed", s, infix, o, ev, true)
					}
				}
			}
		}
		c06Depths(w, r)
		return
	}
	if idx == 1 {
		c06BeyondTwoMillion(w)
		return
	}
	for k := 0; k < inputsPerCase; k++ {
		var src string
		infix := false
		stratum := ""
		switch kind {
		case 0, 1, 2, 3, 4:
			_, _, tree := pickStratum(r, r.Intn(len(strata)))
			src = mutateSource(r, tree.Prefix(), w)
			stratum = "mutated-prefix"
		case 5, 6, 7:
			g := stratumByName("mixed").Make(r)
			tree := toInfixable(g.Root(1 + r.Intn(4)))
			src = mutateSource(r, tree.Infix(r, r.Intn(2) == 0), w)
			infix = true
			stratum = "mutated-infix"
		case 8:
			src = fragmentSoup(r)
			stratum = "soup-prefix"
		case 9:
			src = fragmentSoup(r)
			infix = true
			stratum = "soup-infix"
		case 13:
			// short sequences over a compact infix alphabet: stray operands, operand-less operators, calls, commas
			stratum = "infix-token-soup"
			infix = true
			alpha := []string{"1", "2", "a", "b", "true", "+", "-", "*", "/", "!", "==", "!=", "<", "&&", "||", "sub", "add", "f", "cz", "if", "(", ")", "(", ")", ",", "[", "]", "\"s\""}
			if r.Intn(2) == 0 {
				n := 1 + r.Intn(9)
				parts := make([]string, n)
				for i := range parts {
					parts[i] = alpha[r.Intn(len(alpha))]
				}
				src = strings.Join(parts, " ")
				if r.Intn(3) == 0 {
					src = strings.ReplaceAll(src, " (", "(")
				}
			} else {
				src = nearInfix(r, 3)
			}
		case 12:
			// valid wide programs: nested same-kind and/or groups whose flattened operand count is around the 127 limit
			stratum = "wide-andor-groups"
			tree := wideAndOrGroups(r)
			src = tree.Prefix()
		case 10:
			// unmutated programs under hostile bindings
			_, _, tree := pickStratum(r, r.Intn(len(strata)))
			src = tree.Prefix()
			stratum = "valid-hostile-bindings"
		default:
			// list / set equality and other container-typed operands in scalar positions
			stratum = "containers-in-scalar-positions"
			ops := []string{"=", "==", "eq", "!=", "ne", "+", ">", "between", "xor", "not", "in", "overlap", "and", "or", "if", "version", "date"}
			leaves := []string{"(1 2)", "()", "(\"a\" \"b\")", "li0", "ls0", "seti", "sets", "1", "\"a\"", "true", "i0", "b0", "nilv", "(1)", "KIL", "KSL", c06BigIntList, c06BigStrList, "li0", "ls0"}
			n := 1 + r.Intn(4)
			parts := make([]string, n)
			for i := range parts {
				parts[i] = leaves[r.Intn(len(leaves))]
			}
			src = "(" + ops[r.Intn(len(ops))] + " " + strings.Join(parts, " ") + ")"
			if r.Intn(3) == 0 {
				src = "(and b0 " + src + ")"
			}
		}
		c06Input(w, r, stratum, src, infix, OptSet(r.Intn(16)), []int{0, 0, 0, 1, 2}[r.Intn(5)], r.Intn(3) != 0)
	}
}

// list literals beyond the 100-element switch of in/overlap
var c06BigIntList, c06BigStrList = func() (string, string) {
	var a, b strings.Builder
	a.WriteString("(")
	b.WriteString("(")
	for i := 0; i < 130; i++ {
		fmt.Fprintf(&a, " %d", (i*37)%500-100)
		fmt.Fprintf(&b, " \"s%d\"", (i*37)%500)
	}
	a.WriteString(")")
	b.WriteString(")")
	return a.String(), b.String()
}()

// hostileTagged: a caller's own struct value with a field that Go cannot compare
type hostileTagged struct {
	Name string
	Tags []string
}

var hostileDefaults = []interface{}{nil, int64(1), int64(0), true, false, "s", "", []int64{1, 2}, []int64{}, []string{"a"}, []string{}, map[int64]struct{}{1: {}}, map[string]struct{}{"a": {}},
	// values of types the engine has no business with: uncomparable structs and arrays, functions, pointers, floats
	hostileTagged{"x", []string{"a"}}, [1][]int64{{1}}, struct{ F func() }{}, func() {}, &hostileTagged{}, 1.5, int(3), map[string]interface{}{"k": []int64{1}}, [2]interface{}{[]int64{1}, 2},
}

func c06Config(infix bool, o OptSet, ev int, undefined bool, registerAlways bool) (*eval.Config, CaseCfg) {
	cfg := CaseCfg{RegisterAlways: registerAlways, Opts: o, Events: ev, Undefined: undefined, Infix: infix, Consts: stdConsts, Custom: stdCustom, Stateless: stdStateless,
		VarNames: []string{"b0", "b1", "b2", "b3", "b4", "i0", "i1", "i2", "s0", "s1", "li0", "ls0", "seti", "sets", "kshadow", "ishadow", "nilv"}}
	return buildConfig(cfg, nil), cfg
}

func c06Input(w *W, r *rand.Rand, stratum, src string, infix bool, o OptSet, ev int, undefined bool) {
	cc, cfg := c06Config(infix, o, ev, undefined, len(src)%2 == 0)
	w.Inc("inputs")
	w.Inc("inputs_" + stratum)
	if len(src) > 20000 {
		noteInput(w, src)
	}
	e, co := compileGuard(cc, src)
	w.Evals++
	show := firstN(src, 3000)
	if co.Panic != nil {
		w.Fail("panic/"+normPanic(co.Panic)+"@"+panicSite(co.Stack), "Compile panicked: %v\nsource: %q\nconfig: %s\n%s", co.Panic, show, cfg, co.Stack)
		return
	}
	if co.Err != nil {
		w.Inc("rejected")
		w.Nontrivial(src)
		if e != nil {
			w.Fail("compile-returns-both", "Compile returned a program AND an error (%v)\nsource: %q\nconfig: %s", co.Err, show, cfg)
		}
		return
	}
	if e == nil {
		w.Fail("compile-returns-neither", "Compile returned (nil, nil)\nsource: %q\nconfig: %s", show, cfg)
		return
	}
	w.Inc("compiled")
	if strings.HasPrefix(stratum, "mutated") || strings.HasPrefix(stratum, "soup") {
		w.Inc("compiled_after_mutation")
		w.Nontrivial(src)
	}
	w.Sample(stratum, src)
	var maxStack int16
	size := -1
	if hooksCompiled {
		_, maxStack = progSnapshot(e)
		size = progSize(e)
	}
	// dump (depth cap: the text is produced recursively; huge programs are dumped by c06Huge only)
	if size < 0 || size < 20000 {
		if _, do := dumpGuard(e); do.Panic != nil {
			w.Fail("panic/"+normPanic(do.Panic)+"@"+panicSite(do.Stack), "Dump panicked: %v\nsource: %q\nconfig: %s\n%s", do.Panic, show, cfg, do.Stack)
		}
		w.Evals++
		for _, skip := range []bool{false, true} {
			skip := skip
			to := guard(func() (eval.Value, error) { _ = eval.DumpTable(e, skip); return nil, nil })
			w.Evals++
			if to.Panic != nil {
				w.Fail("panic/"+normPanic(to.Panic)+"@"+panicSite(to.Stack), "DumpTable panicked: %v\nsource: %q\nconfig: %s\n%s", to.Panic, show, cfg, to.Stack)
			}
		}
	}
	// the stock fetchers chosen by NewCtxFromVars: empty binding, only registered names, registered + unknown names
	if ev == 0 {
		for k := 0; k < 3; k++ {
			vals := map[string]interface{}{}
			if k >= 1 {
				for _, n := range []string{"b0", "b1", "i0", "i1", "s0", "li0", "nilv"} {
					if r.Intn(2) == 0 {
						vals[n] = hostileDefaults[r.Intn(len(hostileDefaults))]
					}
				}
			}
			if k == 2 {
				vals["never_registered"] = int64(1)
			}
			for _, kind := range []CallKind{CallEval, CallTryEval} {
				kind := kind
				o := guard(func() (eval.Value, error) {
					ctx := eval.NewCtxFromVars(cc, vals)
					if kind == CallTryEval {
						return e.TryEval(ctx)
					}
					return e.Eval(ctx)
				})
				w.Evals++
				w.Inc("stock_fetcher_calls")
				if o.Panic != nil {
					w.Fail("panic/"+normPanic(o.Panic)+"@"+panicSite(o.Stack), "%s with NewCtxFromVars panicked: %v\nsource: %q\nconfig: %s\nbinding: %s\n%s",
						[]string{"Eval", "TryEval"}[kind], o.Panic, show, cfg, Binding{Vals: vals}, o.Stack)
				}
			}
		}
	}
	// evaluate under hostile bindings
	nb := 4
	for k := 0; k < nb; k++ {
		f := &RecFetcher{Vals: map[string]interface{}{}, HasDefault: true, Default: hostileDefaults[r.Intn(len(hostileDefaults))]}
		if k%2 == 1 {
			// typed-but-arbitrary values for the names the harness knows
			for _, n := range []string{"b0", "b1", "b2", "b3", "b4"} {
				f.Vals[n] = r.Intn(2) == 0
			}
			for _, n := range []string{"i0", "i1", "i2"} {
				f.Vals[n] = extremeInts[r.Intn(len(extremeInts))]
			}
			f.Vals["s0"], f.Vals["s1"] = "a", "1.2.3"
			f.Vals["li0"], f.Vals["ls0"] = []int64{1, 2, 3}, []string{"a", "b"}
			f.Vals["seti"], f.Vals["sets"] = map[int64]struct{}{1: {}}, map[string]struct{}{"a": {}}
			f.Vals["nilv"] = nil
		}
		for _, kind := range []CallKind{CallEval, CallTryEval} {
			if kind == CallTryEval {
				f.AvailHash = k >= 2
			}
			tr := NewTracer()
			tr.MaxStack = maxStack
			o, evs := callExpr(e, kind, f, tr, ev != 0)
			w.Evals++
			w.Count("hook_steps", tr.Steps)
			if o.Panic != nil {
				w.Fail("panic/"+normPanic(o.Panic)+"@"+panicSite(o.Stack), "%s panicked: %v\nsource: %q\nconfig: %s\ndefault binding: %s known: %s\n%s",
					[]string{"Eval", "TryEval"}[kind], o.Panic, show, cfg, valTextAny(f.Default), Binding{Vals: f.Vals}, o.Stack)
				continue
			}
			if tr.Bad != "" {
				w.Fail("step-monitor/"+stepSig(tr.Bad), "%s\nsource: %q\nconfig: %s\ndefault binding: %s", tr.Bad, show, cfg, valTextAny(f.Default))
			}
			if o.Err != nil {
				w.Inc("eval_errors")
			} else {
				w.Inc("eval_values")
			}
			// LOOP positions strictly increasing
			last := int16(-1)
			for _, evr := range evs {
				if evr.Type == eval.LoopEvent {
					w.Inc("loop_events")
					if evr.Loop.CurtIdx <= last {
						w.Fail("loop-positions-not-increasing", "LOOP event positions not strictly increasing (%d after %d)\nsource: %q\nconfig: %s", evr.Loop.CurtIdx, last, show, cfg)
						break
					}
					last = evr.Loop.CurtIdx
				}
			}
		}
	}
}

func noteInput(w *W, src string) {
	// keep the head of a risky input on disk so that a process-fatal crash can be attributed
	dir := os.Getenv("VCHECK_OUTDIR")
	if dir == "" {
		return
	}
	os.WriteFile(filepath.Join(dir, fmt.Sprintf("input-%d.txt", w.Case)), []byte(firstN(src, 2000)+fmt.Sprintf("\n[total %d bytes]", len(src))), 0o644)
}

// c06Depths: nesting depth ladder up to 10^5 in every run (deeper: thorough / known-finding stratum)
func c06Depths(w *W, r *rand.Rand) {
	for _, d := range []int{10, 100, 1000, 10000, 100000} {
		for _, mk := range deepMakers {
			src, infix := mk(d)
			o := OptNone
			if d <= 1000 {
				o = OptAll
			}
			c06Input(w, r, "deep", src, infix, o, 0, true)
			w.Max("max_nesting_depth", int64(d))
		}
	}
}

var deepMakers = []func(d int) (string, bool){
	func(d int) (string, bool) {
		return strings.Repeat("(not ", d) + "b0" + strings.Repeat(")", d), false
	},
	func(d int) (string, bool) {
		return strings.Repeat("(+ 1 ", d) + "i0" + strings.Repeat(")", d), false
	},
	func(d int) (string, bool) {
		return strings.Repeat("(", d) + "1" + strings.Repeat(")", d), true
	},
	func(d int) (string, bool) {
		return strings.Repeat("cb(", d) + "true" + strings.Repeat(")", d), true
	},
	func(d int) (string, bool) { // unbalanced
		return strings.Repeat("(and true ", d), false
	},
	func(d int) (string, bool) {
		return strings.Repeat("! ", d) + "true", true
	},
	func(d int) (string, bool) {
		return strings.Repeat("(if true ", d) + "1" + strings.Repeat(" 2)", d), false
	},
}

// c06Huge: large flat programs, long literals, deep nesting (thorough only)
func c06Huge(w *W, r *rand.Rand, idx int) {
	switch (idx / 200) % 6 {
	case 0:
		// wide flat program with ~10^6 tokens (rejected: too many operands / nodes)
		var sb strings.Builder
		sb.WriteString("(+")
		for i := 0; i < 1000000; i++ {
			sb.WriteString(" 1")
		}
		sb.WriteString(")")
		c06Input(w, r, "huge-flat", sb.String(), false, OptAll, 0, true)
	case 1:
		s := "(= s0 \"" + strings.Repeat("x", 10000000) + "\")"
		c06Input(w, r, "huge-literal", s, false, OptNone, 0, true)
	case 2:
		for _, mk := range deepMakers {
			src, infix := mk(1000000)
			c06Input(w, r, "deep-1e6", src, infix, OptNone, 0, true)
			w.Max("max_nesting_depth", 1000000)
		}
	case 3:
		// many nodes in 127-ary blocks, near the node limit, valid
		src, _ := sumTree(32767)
		c06Input(w, r, "huge-valid", src, false, OptNone, 0, true)
		src, _ = sumTree(32768)
		c06Input(w, r, "huge-valid", src, false, OptNone, 0, true)
	case 4:
		var sb strings.Builder
		sb.WriteString("[")
		for i := 0; i < 500000; i++ {
			sb.WriteString(" 1")
		}
		sb.WriteString("]")
		c06Input(w, r, "huge-list", "in(1, "+sb.String()+")", true, OptAll, 0, true)
	default:
		src := strings.Repeat("; comment line\n", 200000) + "(and true false)"
		c06Input(w, r, "huge-comments", src, false, OptAll, 0, true)
	}
}

// sumTree builds a sum with exactly n nodes (arity <= 127); value = number of leaves.
func sumTree(n int) (string, int64) {
	if n == 1 {
		return "1", 1
	}
	if n == 2 {
		return "", -1
	}
	rest := n - 1
	k := 127
	if rest <= 127 {
		k = rest
	}
	sizes := make([]int, k)
	for i := range sizes {
		sizes[i] = 1
	}
	rest -= k
	for i := 0; rest > 0; i++ {
		add := rest
		if add > 3000 {
			add = 3000
		}
		if sizes[i%k]+add == 2 {
			add++
			if add > rest {
				sizes[(i+1)%k] += rest
				if sizes[(i+1)%k] == 2 {
					return "", -1
				}
				rest = 0
				break
			}
		}
		sizes[i%k] += add
		rest -= add
	}
	var sb strings.Builder
	sb.WriteString("(+")
	var total int64
	for _, sz := range sizes {
		c, v := sumTree(sz)
		if v < 0 {
			return "", -1
		}
		sb.WriteString(" " + c)
		total += v
	}
	sb.WriteString(")")
	return sb.String(), total
}

func c06Floors(m *Merged, tier string) []string {
	var unmet []string
	in := m.C("inputs")
	if in == 0 {
		return []string{"no inputs"}
	}
	if m.C("compiled")*10 < in {
		unmet = append(unmet, fmt.Sprintf("only %d of %d inputs compile (<10%%)", m.C("compiled"), in))
	}
	if m.C("rejected")*10 < in {
		unmet = append(unmet, fmt.Sprintf("only %d of %d inputs are rejected (<10%%)", m.C("rejected"), in))
	}
	for _, c := range []string{"mut_truncate", "mut_delete", "mut_insert", "mut_replace", "mut_duplicate", "mut_swap", "mut_edge", "inputs_fixed", "inputs_deep", "inputs_soup-infix", "inputs_containers-in-scalar-positions", "inputs_wide-andor-groups", "inputs_infix-token-soup", "stock_fetcher_calls", "loop_events", "compiled_after_mutation"} {
		if m.C(c) == 0 {
			unmet = append(unmet, c+" = 0")
		}
	}
	return unmet
}

// deepNestChild: compile one deeply nested source; prints the outcome. Runs in
// its own process because a stack overflow is not recoverable.
func deepNestChild(arg string) {
	parts := strings.SplitN(arg, ":", 2)
	mk, _ := strconv.Atoi(parts[0])
	d, _ := strconv.Atoi(parts[1])
	src, infix := deepMakers[mk](d)
	cc, _ := c06Config(infix, OptNone, 0, true, false)
	e, o := compileGuard(cc, src)
	switch {
	case o.Panic != nil:
		fmt.Printf("DEEPNEST panic %v\n", o.Panic)
	case o.Err != nil:
		fmt.Printf("DEEPNEST error %v\n", firstN(o.Err.Error(), 200))
	case e == nil:
		fmt.Printf("DEEPNEST neither\n")
	default:
		fmt.Printf("DEEPNEST compiled\n")
	}
}

// c06BeyondTwoMillion: the dedicated stratum of the open known finding
// "nesting deeper than ~2.5 million kills the process with a stack overflow".
// Only this stratum can produce the signature fatal/deep-nesting-stack-overflow.
func c06BeyondTwoMillion(w *W) {
	self, err := os.Executable()
	if err != nil {
		return
	}
	type probe struct{ mk, depth int }
	probes := []probe{{0, 3000000}}
	if w.Thorough() {
		probes = append(probes, probe{1, 3000000}, probe{3, 6000000}, probe{6, 3000000})
	}
	for _, p := range probes {
		cmd := exec.Command(self, "-deepnest", fmt.Sprintf("%d:%d", p.mk, p.depth))
		var out, errb bytes.Buffer
		cmd.Stdout, cmd.Stderr = &out, &errb
		done := make(chan error, 1)
		if err := cmd.Start(); err != nil {
			w.Inconclusive = appendCapped(w.Inconclusive, "deep-nesting child could not be started: "+err.Error())
			continue
		}
		go func() { done <- cmd.Wait() }()
		var werr error
		select {
		case werr = <-done:
		case <-time.After(150 * time.Second):
			cmd.Process.Kill()
			<-done
			w.Inconclusive = appendCapped(w.Inconclusive, fmt.Sprintf("deep-nesting probe maker=%d depth=%d did not finish within 150 s", p.mk, p.depth))
			continue
		}
		w.Evals++
		w.Inc("inputs")
		w.Inc("inputs_nesting-beyond-2e6")
		w.Max("max_nesting_depth", int64(p.depth))
		src, _ := deepMakers[p.mk](3)
		desc := fmt.Sprintf("source shape %q nested %d deep", src, p.depth)
		stderr := errb.String()
		switch {
		case werr == nil && strings.Contains(out.String(), "DEEPNEST error"):
			w.Inc("rejected")
			w.Nontrivial(desc)
		case werr == nil && strings.Contains(out.String(), "DEEPNEST compiled"):
			w.Inc("compiled")
		case werr == nil:
			w.Fail("deep-nesting/"+firstN(out.String(), 40), "%s: %s", desc, out.String())
		case strings.Contains(stderr, "stack overflow") || strings.Contains(stderr, "goroutine stack exceeds"):
			w.Fail("fatal/deep-nesting-stack-overflow", "%s kills the process: %s", desc, firstLines(stderr, 3))
		default:
			w.Fail("fatal/deep-nesting-"+fatalSig(stderr), "%s kills the process: %s", desc, firstLines(stderr, 6))
		}
	}
}

// wideAndOrGroups: nested same-kind and/or groups whose flattened operand count is around the 127 limit,
// used as an operand of something else.
func wideAndOrGroups(r *rand.Rand) *Node {
	op := []string{"and", "or", "&&", "||", "&", "|"}[r.Intn(6)]
	ng := 2 + r.Intn(2)
	var groups []*Node
	for gi := 0; gi < ng; gi++ {
		k := []int{40, 60, 63, 64, 65, 70, 100, 126, 127}[r.Intn(9)]
		groups = append(groups, nary(op, TBool, k, func(i int) *Node {
			if r.Intn(8) == 0 {
				return Lit(r.Intn(2) == 0)
			}
			return Var([]string{"b0", "b1", "b2"}[r.Intn(3)], TBool)
		}))
	}
	tree := Op(op, TBool, groups...)
	switch r.Intn(4) {
	case 0:
		tree = If(tree, Lit(int64(1)), Lit(int64(2)))
	case 1:
		tree = Op("not", TBool, tree)
	case 2:
		tree = Op("=", TBool, tree, Var("b0", TBool))
	}
	return tree
}

// nearInfix: a stochastic grammar of almost-valid infix text: sequences of operands, operators (possibly without
// operands), calls (possibly with empty or operator-only arguments) and parenthesised groups.
func nearInfix(r *rand.Rand, depth int) string {
	operands := []string{"1", "2", "a", "b", "true", "-3", "\"s\"", "[1 2]"}
	operators := []string{"+", "-", "*", "/", "%", "!", "==", "!=", "<", ">=", "&&", "||", "&", "|"}
	names := []string{"sub", "add", "f", "cz", "if", "max", "not", "in", "and"}
	var seq func(d int) string
	seq = func(d int) string {
		n := r.Intn(4)
		if d == depth {
			n = 1 + r.Intn(4)
		}
		parts := make([]string, 0, n)
		for i := 0; i < n; i++ {
			switch k := r.Intn(10); {
			case k < 4:
				parts = append(parts, operands[r.Intn(len(operands))])
			case k < 7:
				parts = append(parts, operators[r.Intn(len(operators))])
			case k < 9 && d > 0:
				na := r.Intn(3)
				args := make([]string, na)
				for j := range args {
					args[j] = seq(d - 1)
				}
				parts = append(parts, names[r.Intn(len(names))]+"("+strings.Join(args, ", ")+")")
			case d > 0:
				parts = append(parts, "("+seq(d-1)+")")
			default:
				parts = append(parts, operands[r.Intn(len(operands))])
			}
		}
		return strings.Join(parts, " ")
	}
	return seq(depth)
}
