package main

// C20 — GenerateRandomExpr reports the true value of the expression it generates.

import (
	"fmt"
	"math/rand"
	"sort"

	"github.com/onheap/eval"
)

func init() {
	register(&Prop{
		ID: "C20",
		Rule: "GenerateRandomExpr is called for seeds x levels 0..60 x both result types x all 8 combinations of EnableVariable/EnableCondition/EnableTryEval x variable maps (none; integers incl. 0, +-1 and extremes; booleans; DNE variables; mixtures; unsupported value types); every fifth case reuses its option objects after the maps behind them were updated in place (values changed, names removed/added). " +
			"The returned text is parsed by the harness's own reader and evaluated by the independent reference (plain evaluation without DNE variables, three-valued evaluation with them); the reported Res must equal that value. " +
			"The text must compile with the supplied variables and Eval (TryEval with DNE variables) must not fail; engine agreement is recorded as well. " +
			"A case is non-trivial when level >= 3 and a variable, an if or a DNE variable occurs; distinct = distinct (generated text, variable map).",
		Assumptions: []string{"reference interpreter / Kleene evaluator ref.go and the independent reader are the oracle (the repository checks the generator only against the engine)"},
		NumCases: func(tier string) int {
			if tier == "thorough" {
				return 61 * 2 * 8 * 6 * 320
			}
			return 61 * 2 * 8 * 6 * 3
		},
		Run: c20Run,
		Floors: func(m *Merged, tier string) []string {
			var u []string
			for lv := 0; lv <= 12; lv++ {
				for oc := 0; oc < 8; oc++ {
					if m.C(fmt.Sprintf("lvl%d_opt%d", lv, oc)) == 0 {
						u = append(u, fmt.Sprintf("level %d with option combination %d never generated", lv, oc))
					}
				}
			}
			for _, c := range []string{"with_variables", "with_if", "with_dne", "res_dne", "kleene_checked", "plain_checked", "option_reused_after_map_change", "option_reused_dne_entry_became_value", "option_reused_value_entry_became_dne", "variables_in_two_maps"} {
				if m.C(c) == 0 {
					u = append(u, c+" = 0")
				}
			}
			if len(u) > 6 {
				u = append(u[:6], fmt.Sprintf("... and %d more", len(u)-6))
			}
			return u
		},
	})
}

type unsupportedT struct{ X int }

// caller-defined types over int64 and bool: the engine does not convert them, so they are not variables the generator can use
type c20ID int64
type c20Flag bool
type c20Count int

func c20VarMaps(r *rand.Rand, k int) (vals map[string]interface{}, dne map[string]interface{}) {
	vals, dne = map[string]interface{}{}, map[string]interface{}{}
	ints := func(ext bool) {
		for i, v := range []int64{0, 1, -1, 7, -13, 100} {
			vals[fmt.Sprintf("n%d", i)] = v
		}
		vals["nint"] = int(5)
		vals["ni32"] = int32(-4)
		if ext {
			vals["nmax"] = extremeInts[6]
			vals["nmin"] = extremeInts[0]
		}
	}
	bools := func() {
		vals["bt"], vals["bf"], vals["bt2"] = true, false, true
	}
	dnes := func() {
		dne["dne_1"], dne["dne_2"] = eval.DNE, eval.DNE
	}
	switch k {
	case 0: // none
	case 1:
		ints(false)
	case 2:
		bools()
		ints(r.Intn(2) == 0)
	case 3:
		bools()
		ints(false)
		dnes()
	case 4:
		dnes()
	default:
		bools()
		ints(true)
		dnes()
		vals["float"] = 1.5
		vals["str"] = "s"
		vals["strct"] = unsupportedT{1}
		vals["list"] = []int64{1}
		vals["nilv"] = nil
		vals["user_id"] = c20ID(7)
		vals["is_admin"] = c20Flag(true)
		vals["visits"] = c20Count(3)
	}
	return
}

func c20Run(w *W, idx int) {
	r := w.Rand(idx)
	level := idx % 61
	genType := (idx / 61) % 2
	optCombo := (idx / 61 / 2) % 8
	mapKind := (idx / 61 / 2 / 8) % 6
	seed := int64(idx/61/2/8/6)*1000003 + w.Seed*7919 + int64(idx)
	vals, dne := c20VarMaps(r, mapKind)

	var opts []eval.GenExprOption
	opts = append(opts, eval.GenType(eval.GenExprType(genType)))
	if optCombo&1 != 0 {
		opts = append(opts, eval.EnableVariable)
	}
	if optCombo&2 != 0 {
		opts = append(opts, eval.EnableCondition)
	}
	if optCombo&4 != 0 {
		opts = append(opts, eval.EnableTryEval)
	}
	// map iteration order inside GenVariables is random: sort-independent oracle, same seed
	if idx%4 == 1 && idx%5 != 2 && len(vals) > 3 { // (not together with the in-place update below, which works on vals)
		// the variables arrive in two maps (two GenVariables options), both holding numbers
		part := map[string]interface{}{}
		names := make([]string, 0, len(vals))
		for k := range vals {
			names = append(names, k)
		}
		sort.Strings(names)
		for _, k := range names {
			if _, isBool := vals[k].(bool); !isBool && r.Intn(2) == 0 {
				part[k] = vals[k]
			}
		}
		rest := map[string]interface{}{}
		for k, v := range vals {
			if _, moved := part[k]; !moved {
				rest[k] = v
			}
		}
		opts = append(opts, eval.GenVariables(rest), eval.GenVariables(part))
		w.Inc("variables_in_two_maps")
	} else {
		opts = append(opts, eval.GenVariables(vals))
	}
	if len(dne) > 0 {
		opts = append(opts, eval.GenVariables(dne))
	}
	// Option reuse: the GenVariables option reads its map when it is applied, so one option object may be used for many
	// generator calls while its map is updated in between (values changed, names removed and added). Every fifth case
	// first spends the options on a throw-away call with the old contents.
	reused := false
	if idx%5 == 2 && len(vals) > 0 {
		guard(func() (eval.Value, error) {
			eval.GenerateRandomExpr(level, rand.New(rand.NewSource(seed^0x5bd1e995)), opts...)
			return nil, nil
		})
		for k, v := range vals {
			switch x := v.(type) {
			case int64:
				if x > -1000 && x < 1000 {
					vals[k] = x*3 + int64(r.Intn(7)) - 3
				}
			case int:
				vals[k] = x + 1 + r.Intn(3)
			case int32:
				vals[k] = x - 1 - int32(r.Intn(3))
			case bool:
				if r.Intn(2) == 0 {
					vals[k] = !x
				}
			}
		}
		if r.Intn(2) == 0 {
			delete(vals, "n3")
			delete(vals, "bt2")
		}
		if r.Intn(2) == 0 {
			vals["n9"] = int64(r.Intn(19) - 9)
			vals["b9"] = r.Intn(2) == 0
		}
		if len(dne) > 0 && r.Intn(3) == 0 {
			delete(dne, "dne_2")
			dne["dne_3"] = eval.DNE
		}
		// entries change kind: a variable that was unknown has been fetched (DNE -> value), a known one is invalidated
		// (value -> DNE) - the fetch loop of a TryEval caller, on the maps the options hold
		if len(dne) > 0 && r.Intn(2) == 0 {
			for _, k := range []string{"dne_1", "dne_2"} {
				if _, ok := dne[k]; ok && r.Intn(2) == 0 {
					dne[k] = []interface{}{true, false, int64(4), int64(0), int(-6)}[r.Intn(5)]
					w.Inc("option_reused_dne_entry_became_value")
				}
			}
		}
		if r.Intn(3) == 0 {
			for _, k := range []string{"n2", "bf", "n0", "bt"} {
				if _, ok := vals[k]; ok && r.Intn(2) == 0 {
					vals[k] = eval.DNE
					w.Inc("option_reused_value_entry_became_dne")
				}
			}
		}
		reused = true
		w.Inc("option_reused_after_map_change")
		// the oracle goes by what the entries hold now (the options keep the map objects they were built with)
		vals2, dne2 := map[string]interface{}{}, map[string]interface{}{}
		for _, m := range []map[string]interface{}{vals, dne} {
			for k, v := range m {
				if isDNE(v) {
					dne2[k] = v
				} else {
					vals2[k] = v
				}
			}
		}
		vals, dne = vals2, dne2
	}
	var res eval.GenExprResult
	gen := rand.New(rand.NewSource(seed))
	go1 := guard(func() (eval.Value, error) { res = eval.GenerateRandomExpr(level, gen, opts...); return nil, nil })
	w.Evals++
	w.Inc(fmt.Sprintf("lvl%d_opt%d", level, optCombo))
	desc := func() string {
		var names []string
		for k, v := range vals {
			names = append(names, fmt.Sprintf("%s=%v", k, v))
		}
		for k := range dne {
			names = append(names, k+"=DNE")
		}
		sort.Strings(names)
		return fmt.Sprintf("GenerateRandomExpr(level=%d, seed=%d, type=%d, variable=%v condition=%v tryeval=%v, variables %v, options reused after the maps were updated in place: %v)\nexpression: %s\nreported result: %v",
			level, seed, genType, optCombo&1 != 0, optCombo&2 != 0, optCombo&4 != 0, names, reused, firstN(res.Expr, 3000), res.Res)
	}
	if go1.Panic != nil {
		w.Fail("generator-panic/"+normPanic(go1.Panic)+"@"+panicSite(go1.Stack), "GenerateRandomExpr panicked: %v\n%s\n%s", go1.Panic, desc(), go1.Stack)
		return
	}
	tree, perr := parseDump(res.Expr)
	if perr != nil {
		w.Fail("generated-text-unreadable", "generated text is not a well-formed prefix expression: %v\n%s", perr, desc())
		return
	}
	// reference value
	usesDNE, usesVar, usesIf := false, false, false
	tree.Walk(func(n *Node) {
		if n.Kind == KVar {
			usesVar = true
			if _, ok := dne[n.Name]; ok {
				usesDNE = true
			}
		}
		if n.Kind == KIf {
			usesIf = true
		}
	})
	if usesVar {
		w.Inc("with_variables")
	}
	if usesIf {
		w.Inc("with_if")
	}
	if usesDNE {
		w.Inc("with_dne")
	}
	if level >= 3 && (usesVar || usesIf || usesDNE) {
		w.Nontrivial(res.Expr, fmt.Sprint(mapKind))
	}
	if idx%97 == 0 {
		w.Sample(fmt.Sprintf("type%d", genType), fmt.Sprintf("level %d: %s => %v", level, firstN(res.Expr, 300), res.Res))
	}
	bound := map[string]interface{}{}
	for k, v := range vals {
		bound[k] = engineVal(v)
	}
	env := &Env{Vars: bound}
	var want interface{}
	var werr error
	if usesDNE {
		want, werr = env.Kleene(tree)
		w.Inc("kleene_checked")
	} else {
		want, werr = env.Eval(tree)
		w.Inc("plain_checked")
	}
	got := interface{}(res.Res)
	if isDNE(got) {
		got = refDNE
		w.Inc("res_dne")
	}
	if werr != nil {
		w.Fail("generated-expression-fails", "the reference evaluation of the generated expression fails: %v\n%s", werr, desc())
	} else if !valEq(want, got) {
		w.Fail("reported-result-wrong", "reported result %v, reference value %s\n%s", res.Res, valText(want), desc())
	}

	// it compiles with the variables it was given, and the engine does not fail on it
	all := map[string]interface{}{}
	for k, v := range vals {
		all[k] = v
	}
	for k, v := range dne {
		all[k] = v
	}
	cc := eval.NewConfig(eval.RegVarAndOp(all), eval.Optimizations([]bool{false, true}[r.Intn(2)]))
	e, co := compileGuard(cc, res.Expr)
	w.Evals++
	if co.Panic != nil {
		w.Fail("compile-panic/"+normPanic(co.Panic)+"@"+panicSite(co.Stack), "Compile panicked on generated text: %v\n%s", co.Panic, desc())
		return
	}
	if co.Err != nil {
		w.Fail("generated-text-does-not-compile", "generated expression does not compile with the variables it was given: %v\n%s", co.Err, desc())
		return
	}
	ctx := eval.NewCtxFromVars(cc, vals)
	if usesDNE || len(dne) > 0 {
		// DNE variables are simply not in the fetcher; the slice fetcher reports every key as cached, so use the truthful map fetcher
		ctx = &eval.Ctx{VariableFetcher: eval.NewMapVarFetcher(vals)}
	}
	var o Outcome
	if usesDNE {
		o = guard(func() (eval.Value, error) { return e.TryEval(ctx) })
	} else {
		o = guard(func() (eval.Value, error) { return e.Eval(ctx) })
	}
	w.Evals++
	switch {
	case o.Panic != nil:
		w.Fail("eval-panic/"+normPanic(o.Panic)+"@"+panicSite(o.Stack), "evaluation of generated text panicked: %v\n%s", o.Panic, desc())
	case o.Err != nil:
		w.Fail("generated-expression-fails-in-engine", "evaluating the generated expression fails: %v\n%s", o.Err, desc())
	default:
		ev := interface{}(o.V)
		if isDNE(ev) {
			ev = refDNE
		}
		if valEq(ev, got) {
			w.Inc("engine_agrees_with_reported")
		} else if werr == nil && valEq(want, got) && usesDNE {
			// engine more informative than Kleene is legitimate (C05); anything else is C01/C05's business, recorded here
			w.Inc("engine_differs_from_reported")
		} else {
			w.Inc("engine_differs_from_reported")
		}
	}
}
