package main

// C13 — Dump decompiles to an equivalent, re-compilable expression.

import (
	"fmt"
	"github.com/onheap/eval"
	"math/rand"
	"strings"
	"unicode"
)

// string literal classes: everything the lexer can produce between two double quotes
var c13StringClasses = []struct {
	name string
	pool []string
}{
	{"empty", []string{""}},
	{"plain", []string{"a", "kay", "hello"}},
	{"space", []string{"a b", " a", "a ", " "}},
	{"space-run", []string{"a  b", "   ", "a   b  c"}},
	{"paren", []string{"(", ")", "a(b", "(a b)", "f(x)"}},
	{"bracket", []string{"[", "]", "[1 2]"}},
	{"comma", []string{",", "a,b"}},
	{"semicolon", []string{";", "a;b", ";;;; optimize:false", "; c"}},
	{"backslash", []string{"\\", "a\\b", "\\n", "\\\\", "a\\", "\\\""[:1] + "x"}},
	{"linebreak", []string{"\n", "a\nb", "a\n  b", "\r\n", "\n\n"}},
	{"tab", []string{"\t", "a\tb"}},
	{"control", []string{"\x01", "a\x7fb", "\x1b[0m", "\x00"}},
	{"nbsp", []string{"\u00a0", "a\u00a0b"}},
	{"unicode-space", []string{"\u3000", "a\u2028b", "\u2003", "\u0085", "\u2029x"}},
	{"multibyte", []string{"λ", "日本語", "é", "😀"}},
	{"combining", []string{"é", "ạ̈"}},
	{"bom-zw", []string{"\ufeff", "a\u200bb"}},
	{"quote-like", []string{"'", "`", "''"}},
	{"percent", []string{"%", "50%", "%d items", "%%", "100%s", "%v%v", "a%!b", "%!(EXTRA)"}},
	{"ascii-punct", []string{"!", "@", "#", "$", "^", "&", "*", "-", "+", "=", "|", ":", "<", ">", "?", "/", "~", "{", "}", ".", "_", "a.b", "a-b", "&&", "||", "!=", "<=", "{}", "$1", "#1", "a@b.c", "~/x", "^$", "*/", "/*"}},
	{"number-like", []string{"1", "-5", "1.2.3", "true", "false", "2021-01-02"}},
}

func c13StrPool(r *rand.Rand) []string {
	var p []string
	for _, c := range c13StringClasses {
		p = append(p, c.pool[r.Intn(len(c.pool))])
	}
	return p
}

func classifyString(s string) []string {
	var cl []string
	add := func(c string) { cl = append(cl, c) }
	if s == "" {
		add("empty")
	}
	if strings.Contains(s, " ") {
		add("space")
	}
	if strings.Contains(s, "  ") {
		add("space-run")
	}
	if strings.ContainsAny(s, "()") {
		add("paren")
	}
	if strings.ContainsAny(s, "[]") {
		add("bracket")
	}
	if strings.Contains(s, ",") {
		add("comma")
	}
	if strings.Contains(s, ";") {
		add("semicolon")
	}
	if strings.Contains(s, "\\") {
		add("backslash")
	}
	if strings.ContainsAny(s, "\n\r") {
		add("linebreak")
	}
	if strings.Contains(s, "\t") {
		add("tab")
	}
	if strings.ContainsAny(s, "'`") {
		add("quote-like")
	}
	if strings.Contains(s, "%") {
		add("percent")
	}
	if strings.ContainsAny(s, "!@#$^&*-+=|:<>?/~{}._") {
		add("ascii-punct")
	}
	if len(s) > 0 && (s[0] == '-' || (s[0] >= '0' && s[0] <= '9') || s == "true" || s == "false") {
		add("number-like")
	}
	plain := s != ""
	for _, c := range s {
		if !(c >= 'a' && c <= 'z') {
			plain = false
		}
	}
	if plain {
		add("plain")
	}
	for _, c := range s {
		switch {
		case c < 0x20 && c != '\n' && c != '\r' && c != '\t', c == 0x7f:
			add("control")
		case c == 0xa0:
			add("nbsp")
		case c > 0xa0 && unicode.IsSpace(c), c == 0x85:
			add("unicode-space")
		case unicode.Is(unicode.Mn, c):
			add("combining")
		case c == 0xfeff || c == 0x200b:
			add("bom-zw")
		case c > 0x7f && unicode.IsLetter(c), c > 0xffff:
			add("multibyte")
		}
	}
	return cl
}

func init() {
	register(&Prop{
		ID: "C13",
		Rule: "Programs from all strata with string literals / string-list elements / string constants drawn from a pool covering every class the lexer can produce (empty, spaces, space runs, parentheses, brackets, comma, semicolon, backslash, line breaks, tab, control characters, NBSP, Unicode spaces, multi-byte letters, combining marks, BOM/zero-width), " +
			"integer extremes, empty and long lists, zero-operand operators, if in every position; each compiled under 16 optimization subsets x {no events, ReportEvent, Debug}. Unless the program folded to a bare scalar: Dump text must compile under the same names (optimizations off), " +
			"the recompiled program must give the same value / same error as the original on every fully-bound binding, its own Dump must be the identical text, and the reference interpreter run on an independent parse of the dump must agree with the engine (so a symmetric mistake in Dump and parser cannot cancel). " +
			"A case is non-trivial when the dump contains a string or list literal or an if and differs from the source text; distinct = distinct dump text.",
		Assumptions: []string{
			"constants are restricted to values that have a textual form (bool, int64, string without double quote, lists of those)",
			"independent Dump reader sexpr.go and reference interpreter ref.go",
		},
		NumCases: func(tier string) int {
			if tier == "thorough" {
				return 600000
			}
			return 16000
		},
		Run: c13Run,
		Floors: func(m *Merged, tier string) []string {
			var u []string
			for _, c := range c13StringClasses {
				if m.C("strclass_"+c.name) == 0 {
					u = append(u, "string class never dumped: "+c.name)
				}
			}
			for _, c := range []string{"roundtrips", "dump_with_if", "dump_with_list", "dump_events_mode", "folded_to_scalar", "zero_operand_ops", "deep_ladder_dumps", "aliased_list_constants"} {
				if m.C(c) == 0 {
					u = append(u, c+" = 0")
				}
			}
			if len(u) > 6 {
				u = append(u[:6], fmt.Sprintf("... and %d more", len(u)-6))
			}
			return u
		},
	})
}

func c13Tree(r *rand.Rand, k int) (*Node, string) {
	switch k % 8 {
	case 6:
		// string-heavy hand shapes
		pool := c13StrPool(r)
		ps := func() *Node { return Lit(pool[r.Intn(len(pool))]) }
		pl := func() *Node {
			n := r.Intn(5)
			l := make([]string, n)
			for i := range l {
				l[i] = pool[r.Intn(len(pool))]
			}
			if n == 0 {
				return Lit([]string{})
			}
			return Lit(l)
		}
		sv := Var("s0", TStr)
		switch r.Intn(7) {
		case 6:
			// a conversion whose text is a variable and whose layout is a literal (nothing to fold: both operands stay)
			lay := [][2]string{{"2006/01/02", "2021/03/04"}, {"01/02/2006", "03/04/2021"}, {"2006-01-02 15:04", "2021-03-04 05:06"}, {"02.01.2006", "04.03.2021"}}[r.Intn(4)]
			op := []string{"date", "to_date", "datetime", "to_datetime", "t_date", "t_time"}[r.Intn(6)]
			return Op("or", TBool, Op(">", TBool, Op(op, TInt, Var("sdate", TStr), Lit(lay[0])), Lit(int64(1600000000))), Op("=", TBool, sv, Lit(lay[1]))), "strings"
		case 0:
			return Op("=", TBool, ps(), sv), "strings"
		case 1:
			return Op("in", TBool, sv, pl()), "strings"
		case 2:
			return Op("and", TBool, Op("!=", TBool, sv, ps()), Op("overlap", TBool, pl(), Var("ls0", TSList)), Op("eq", TBool, ps(), ps(), sv)), "strings"
		case 3:
			return If(Op("=", TBool, sv, ps()), Op("in", TBool, ps(), pl()), Op("=", TBool, Op("cs", TStr, ps()), sv)), "strings"
		case 4:
			c := ConstRef("KSTR", pool[r.Intn(len(pool))])
			return Op("or", TBool, Op("=", TBool, c, sv), Op("in", TBool, sv, ConstRef("KSTRL", []string{pool[r.Intn(len(pool))], pool[r.Intn(len(pool))]}))), "strings"
		default:
			return Op("=", TBool, If(Var("b0", TBool), ps(), ps()), If(Var("b1", TBool), sv, ps())), "strings"
		}
	case 7:
		// lists and integer extremes
		long := make([]int64, []int{64, 100, 150, 255, 256, 257, 300, 512, 1000, 1024, 1025, 5000}[r.Intn(12)])
		for i := range long {
			long[i] = int64(r.Intn(1000) - 500)
		}
		longS := make([]string, []int{64, 100, 255, 256, 257, 300, 1024, 2000}[r.Intn(8)])
		for i := range longS {
			longS[i] = fmt.Sprintf("s%d", r.Intn(500))
		}
		ex := func() *Node { return Lit(extremeInts[r.Intn(len(extremeInts))]) }
		switch r.Intn(9) {
		case 7:
			// two named list constants that share one backing array (a ranking and its head: KALL_HEAD = KALL[:k]), both
			// used in one expression; buildConfig keeps the sharing
			k := 1 + r.Intn(len(long)-1)
			all, head := ConstRef("KALL", long), ConstRef("KALL_HEAD", append([]int64{}, long[:k]...))
			t := Op("or", TBool, Op("in", TBool, Var("i0", TInt), head), Op("and", TBool, Op("in", TBool, Var("i1", TInt), all), Var("b0", TBool)))
			if r.Intn(2) == 0 {
				t = Op("and", TBool, Op("in", TBool, Var("i0", TInt), all), Op("not", TBool, Op("in", TBool, Var("i0", TInt), head)))
			}
			return t, "lists-extremes"
		case 8:
			k := 1 + r.Intn(len(longS)-1)
			all, head := ConstRef("KALLS", longS), ConstRef("KALLS_HEAD", append([]string{}, longS[:k]...))
			if r.Intn(2) == 0 {
				return Op("and", TBool, Op("in", TBool, Var("s0", TStr), all), Op("not", TBool, Op("in", TBool, Var("s0", TStr), head))), "lists-extremes"
			}
			return Op("or", TBool, Op("overlap", TBool, Var("ls0", TSList), head), Op("overlap", TBool, all, Var("ls0", TSList))), "lists-extremes"
		case 4:
			return Op("in", TBool, Var("s0", TStr), Lit(longS)), "lists-extremes"
		case 5:
			return Op("and", TBool, Var("b0", TBool), Op("overlap", TBool, Lit(long), Var("li0", TIList)), Op("in", TBool, Lit(int64(3)), Lit(long))), "lists-extremes"
		case 6:
			return Op("or", TBool, Op("overlap", TBool, Var("ls0", TSList), Lit(longS)), Op("in", TBool, Lit("s1"), ConstRef("KLONGS", longS))), "lists-extremes"
		case 0:
			return Op("in", TBool, Var("i0", TInt), Lit(long)), "lists-extremes"
		case 1:
			return Op("overlap", TBool, Lit([]string{}), If(Var("b0", TBool), Var("li0", TIList), Lit([]int64{1, -1}))), "lists-extremes"
		case 2:
			return Op("+", TInt, ex(), Var("i0", TInt), Op("*", TInt, ex(), ex())), "lists-extremes"
		default:
			return Op("between", TBool, Var("i0", TInt), ex(), ex()), "lists-extremes"
		}
	}
	s := &strata[k%len(strata)]
	g := s.Make(r)
	g.StrPool = c13StrPool(r)
	g.Extremes = true
	if s.Name == "wide-deep" {
		g.Budget = 300
	}
	return g.Root(s.Dep(r)), s.Name
}

// c13Deep: Dump indents by nesting depth, so its text grows with the square of the depth: a few thousand levels of
// else-if give a text of tens of megabytes from a source of some ten kilobytes. It must compile like any other dump.
func c13Deep(w *W, r *rand.Rand, depth int) {
	var sb strings.Builder
	for i := 0; i < depth; i++ {
		fmt.Fprintf(&sb, "(if (= i0 %d) %d ", i, i*3+1)
	}
	sb.WriteString("-1")
	sb.WriteString(strings.Repeat(")", depth))
	src := sb.String()
	cc := eval.NewConfig(eval.Optimizations(false))
	cc.VariableKeyMap["i0"] = 1
	e1, co := compileGuard(cc, src)
	w.Evals++
	if co.Panic != nil || co.Err != nil {
		w.Fail("deep-source-rejected", "a %d-level else-if ladder (%d bytes) does not compile: %s", depth, len(src), co)
		return
	}
	d1, do := dumpGuard(e1)
	if do.Panic != nil {
		w.Fail("dump-panic/deep", "Dump panicked on a %d-level ladder: %v", depth, do.Panic)
		return
	}
	w.Inc("deep_ladder_dumps")
	w.Max("largest_dump_bytes", int64(len(d1)))
	c2 := eval.NewConfig(eval.Optimizations(false))
	c2.VariableKeyMap["i0"] = 1
	e2, co2 := compileGuard(c2, d1)
	w.Evals++
	if co2.Panic != nil || co2.Err != nil {
		w.Fail("dump-does-not-compile/deep", "the Dump text (%d bytes) of a compiled %d-level else-if ladder (source %d bytes) does not compile: %s", len(d1), depth, len(src), firstN(fmt.Sprint(co2), 300))
		return
	}
	d2, _ := dumpGuard(e2)
	if d1 != d2 {
		w.Fail("dump-not-stable/deep", "dumping the recompiled %d-level ladder gives a different text (%d vs %d bytes)", depth, len(d1), len(d2))
	}
	for _, x := range []int64{0, int64(depth / 2), int64(depth - 1), int64(depth), -7} {
		vals := map[string]interface{}{"i0": x}
		o1 := guard(func() (eval.Value, error) { return e1.Eval(eval.NewCtxFromVars(cc, vals)) })
		o2 := guard(func() (eval.Value, error) { return e2.Eval(eval.NewCtxFromVars(c2, vals)) })
		w.Evals += 2
		want := int64(-1)
		if x >= 0 && x < int64(depth) {
			want = x*3 + 1
		}
		if !outcomeEq(o1, o2) || o1.Err != nil || !valEq(o1.V, want) {
			w.Fail("recompiled-dump-differs/deep", "i0=%d: original %s, recompiled dump %s, expected %d", x, o1, o2, want)
		}
	}
}

func c13Run(w *W, idx int) {
	r := w.Rand(idx)
	if idx%40000 == 11 {
		depth := 3000
		if idx > 40000 {
			depth = []int{3500, 4000}[r.Intn(2)]
		}
		c13Deep(w, r, depth)
		return
	}
	tree, stratum := c13Tree(r, idx)
	src := tree.Prefix()
	w.Inc("programs")
	w.Inc("programs_" + stratum)
	bs := genBindings(r, tree, 4, 0)
	// probes from the tail and the head of a shared list constant
	cm := map[string]interface{}{}
	tree.Consts(cm)
	if l, ok := cm["KALL"].([]int64); ok {
		w.Inc("aliased_list_constants")
		for i := range bs {
			bs[i].Vals["i0"] = l[(len(l)-1)*(i%2)+(1-2*(i%2))*r.Intn(1+len(l)/4)]
			if _, ok := bs[i].Vals["i1"]; ok {
				bs[i].Vals["i1"] = l[len(l)-1-r.Intn(1+len(l)/4)]
			}
		}
	}
	for i := range bs {
		if _, ok := bs[i].Vals["sdate"]; ok {
			// a text in one of the layouts used above (the right one parses, the others are run-time errors)
			bs[i].Vals["sdate"] = []string{"2021/03/04", "03/04/2021", "2021-03-04 05:06", "04.03.2021", "2019/12/31"}[r.Intn(5)]
		}
	}
	if l, ok := cm["KALLS"].([]string); ok {
		w.Inc("aliased_list_constants")
		for i := range bs {
			if _, ok := bs[i].Vals["s0"]; ok {
				bs[i].Vals["s0"] = l[(len(l)-1)*(i%2)+(1-2*(i%2))*r.Intn(1+len(l)/4)]
			}
			if _, ok := bs[i].Vals["ls0"]; ok {
				bs[i].Vals["ls0"] = []string{l[len(l)-1-r.Intn(1+len(l)/4)], "zz-none"}
			}
		}
	}
	undefined := r.Intn(2) == 0
	for _, o := range allOptSets() {
		evs := []int{0}
		if int(o)%4 == idx%4 {
			evs = []int{0, 1, 2}
		}
		for _, ev := range evs {
			cfg := cfgFor(tree, o, undefined)
			cfg.Events = ev
			v, ok := compileVariant(w, tree, src, cfg, "c13")
			if !ok {
				continue
			}
			c13Check(w, tree, stratum, v, bs)
		}
	}
}

func c13Check(w *W, tree *Node, stratum string, v *Variant, bs []Binding) {
	d := v.Dump
	if v.DumpErr != nil {
		w.Fail("dump-unreadable/"+stratum, "Dump text is not a well-formed prefix expression (%v)\nsource: %q\nconfig: %s\ndump: %q", v.DumpErr, v.Src, v.Cfg, d)
		return
	}
	dt := v.DumpTree
	if dt.Kind == KLit {
		if _, isList := dt.Val.([]int64); !isList {
			if _, isSList := dt.Val.([]string); !isSList {
				w.Inc("folded_to_scalar")
				return
			}
		}
	}
	if dt.Kind == KVar {
		return
	}
	if v.Cfg.Events != 0 {
		w.Inc("dump_events_mode")
	}
	// coverage
	hasIf, hasList, hasStr := false, false, false
	dt.Walk(func(n *Node) {
		switch {
		case n.Kind == KIf:
			hasIf = true
		case n.Kind == KOp && len(n.Ch) == 0:
			w.Inc("zero_operand_ops")
		case n.Kind == KLit:
			switch x := n.Val.(type) {
			case string:
				hasStr = true
				for _, c := range classifyString(x) {
					w.Inc("strclass_" + c)
				}
			case []string:
				hasList = true
				for _, s := range x {
					for _, c := range classifyString(s) {
						w.Inc("strclass_" + c)
					}
				}
			case []int64:
				hasList = true
			}
		}
	})
	if hasIf {
		w.Inc("dump_with_if")
	}
	if hasList {
		w.Inc("dump_with_list")
	}
	if (hasIf || hasList || hasStr) && d != v.Src {
		w.Nontrivial(d)
	}
	w.Sample(stratum, fmt.Sprintf("%q", firstN(d, 300)))

	// recompile the dump under the same names, optimizations off, no events
	rcfg := v.Cfg
	rcfg.Opts = OptNone
	rcfg.Events = 0
	rcfg.Costs = nil
	rcc := buildConfig(rcfg, nil)
	re, co := compileGuard(rcc, d)
	w.Evals++
	w.Inc("roundtrips")
	if co.Panic != nil {
		w.Fail("recompile-panic/"+normPanic(co.Panic)+"@"+panicSite(co.Stack), "Compile(Dump(e)) panicked: %v\nsource: %q\nconfig: %s\ndump: %q", co.Panic, v.Src, v.Cfg, d)
		return
	}
	if co.Err != nil {
		w.Fail("dump-does-not-compile/"+stratum, "Dump text does not compile under the same names: %v\nsource: %q\nconfig: %s\ndump: %q", co.Err, v.Src, v.Cfg, d)
		return
	}
	d2, do := dumpGuard(re)
	if do.Panic != nil {
		w.Fail("redump-panic/"+normPanic(do.Panic), "Dump of the recompiled program panicked: %v\ndump: %q", do.Panic, d)
		return
	}
	if d2 != d {
		w.Fail("redump-differs/"+stratum, "dumping the recompiled (unoptimized) program does not reproduce the text\nsource: %q\nconfig: %s\ndump 1: %q\ndump 2: %q", v.Src, v.Cfg, d, d2)
	}
	for _, b := range bs {
		o1, _ := callExpr(v.E, CallEval, fetcherFor(b, nil), nil, v.Cfg.Events != 0)
		o2, _ := callExpr(re, CallEval, fetcherFor(b, nil), nil, false)
		w.Evals += 2
		if o1.Panic != nil || o2.Panic != nil {
			w.Fail("eval-panic/"+normPanic(fmt.Sprint(o1.Panic, o2.Panic)), "evaluation panicked: original %s, recompiled %s\n%s\ndump: %q", o1, o2, describeCase(v.Src, v.Cfg, b), d)
			continue
		}
		same := (o1.Err == nil) == (o2.Err == nil)
		if same && o1.Err == nil {
			same = valEq(o1.V, o2.V)
		} else if same {
			same = o1.Err == o2.Err || o1.Err.Error() == o2.Err.Error()
		}
		if !same {
			w.Fail("recompiled-differs/"+stratum, "the recompiled dump does not behave like the original: original %s, recompiled %s\n%s\ndump: %q", o1, o2, describeCase(v.Src, v.Cfg, b), d)
		}
		// independent reading of the dump + reference interpreter
		env := refEnv(b)
		want, wantErr := env.Eval(dt)
		if dd := sameOutcome(o1, want, wantErr); dd != "" {
			w.Fail("dump-meaning-differs/"+stratum, "the dumped text, read independently, does not mean what the program computes: %s\n%s\ndump: %q", dd, describeCase(v.Src, v.Cfg, b), d)
		}
	}
}
