package main

// C15 — infix notation means the same as the equivalent prefix expression.

import (
	"fmt"
	"math/rand"
)

var c15Levels = []struct {
	name string
	ops  []string
}{
	{"mul", []string{"*", "/", "%"}},
	{"add", []string{"+", "-"}},
	{"cmp", []string{"=", "==", "!=", "<", ">", "<=", ">="}},
	{"and", []string{"&&", "&"}},
	{"or", []string{"||", "|"}},
}

// child kinds of the small-scope enumeration
const (
	ckAtom = iota
	ckBin0 // .. ckBin4: binary operator of level 0..4
	ckBin1
	ckBin2
	ckBin3
	ckBin4
	ckNotAtom
	ckNotBin0
	ckNotBin1
	ckNotBin2
	ckNotBin3
	ckNotBin4
	ckCall
	ckNotNot
	ckIf
	ckList
	numChildKinds
)

func init() {
	register(&Prop{
		ID: "C15",
		Rule: "One harness tree is rendered to prefix text and to infix text (minimal parentheses derived from the precedence table in the property, and a second rendering with random redundant parentheses/spacing); both are compiled (optimizations off and on) and must give the same alias-normalised Dump tree and the same results on every binding. " +
			"Trees: small-scope enumeration of parent x left-child x right-child construct classes (5 binary precedence levels, prefix ! over atoms/binaries/another !, calls, if, lists; all aliases) and typed random programs of the mixed stratum; named n-ary calls with 0-5 arguments incl. infix arguments. " +
			"A case is non-trivial when the infix text has two adjacent operators of different precedence or a call inside an operand; distinct = distinct infix text.",
		Assumptions: []string{
			"harness infix renderer infix.go (precedence and associativity from the property text)",
			"independent Dump reader",
		},
		NumCases: func(tier string) int {
			if tier == "thorough" {
				return 15000000
			}
			return 240000
		},
		Run: c15Run,
		Floors: func(m *Merged, tier string) []string {
			var u []string
			for p := 0; p < 5; p++ {
				for c := 0; c < 5; c++ {
					for _, side := range []string{"L", "R"} {
						k := fmt.Sprintf("pair_%s_%s_%s", c15Levels[p].name, c15Levels[c].name, side)
						if m.C(k) == 0 {
							u = append(u, "precedence pair never rendered: "+k)
						}
					}
				}
			}
			for _, c := range []string{"not_over_not", "not_over_binary", "binary_over_not", "call_in_operand", "zero_arg_calls", "if_calls", "list_literals", "redundant_renderings", "typed_programs", "wide_nested_calls"} {
				if m.C(c) == 0 {
					u = append(u, c+" = 0")
				}
			}
			if len(u) > 6 {
				u = append(u[:6], fmt.Sprintf("... and %d more", len(u)-6))
			}
			return u
		},
	})
}

type c15Gen struct {
	r *rand.Rand
	// opNames: integer variables may carry names of operators (registered variables only: in undefined-variable mode
	// such a name is not a variable)
	opNames bool
}

func (g *c15Gen) atom() *Node {
	switch g.r.Intn(9) {
	case 0:
		// (dotted and underscored names are ordinary identifiers)
		return Var([]string{"b0", "b1", "b2", "u.vip", "_ok"}[g.r.Intn(5)], TBool)
	case 1, 2:
		if g.opNames && g.r.Intn(4) == 0 {
			return Var([]string{"version", "date", "mod", "add", "between"}[g.r.Intn(5)], TInt)
		}
		return Var([]string{"i0", "i1", "i2", "acct.level", "n_1"}[g.r.Intn(5)], TInt)
	case 3:
		return Lit(g.r.Intn(2) == 0)
	case 4:
		return Lit([]int64{-3, 0, 1, 7, 100}[g.r.Intn(5)])
	case 5:
		i := g.r.Intn(3)
		return ConstRef([]string{"KT", "KI", "KN"}[i], []interface{}{true, int64(7), int64(-3)}[i])
	case 6:
		// incl. strings that spell operators, keywords, delimiters and other tokens
		return Lit([]string{"a", "x y", "", "+", "-", "*", "/", "%", "!", "==", "=", "!=", "<", ">=", "&&", "||", "&", "|", "(", ")", ",", "[", "]", "if", "and", "not", "true", "1", "-1", "b0", "; c", "f(x)"}[g.r.Intn(32)])
	default:
		return Lit(int64(g.r.Intn(10)))
	}
}

func (g *c15Gen) bin(level int, l, r *Node) *Node {
	ops := c15Levels[level].ops
	return Op(ops[g.r.Intn(len(ops))], TAny, l, r)
}

func (g *c15Gen) call(args ...*Node) *Node {
	names := []string{"cb", "ci", "cz", "cpick", "add", "and", "or", "eq", "xor", "between", "mul", "sub", "in", "not", "max_"}
	n := names[g.r.Intn(len(names)-1)]
	return Op(n, TAny, args...)
}

func (g *c15Gen) kind(k int, depth int) *Node {
	sub := func() *Node {
		if depth <= 0 {
			return g.atom()
		}
		return g.kind(g.r.Intn(numChildKinds), depth-1)
	}
	switch {
	case k == ckAtom:
		return g.atom()
	case k >= ckBin0 && k <= ckBin4:
		return g.bin(k-ckBin0, sub(), sub())
	case k == ckNotAtom:
		return Op("!", TAny, g.atom())
	case k >= ckNotBin0 && k <= ckNotBin4:
		return Op("!", TAny, g.bin(k-ckNotBin0, sub(), sub()))
	case k == ckCall:
		n := g.r.Intn(6)
		args := make([]*Node, n)
		for i := range args {
			args[i] = sub()
		}
		return g.call(args...)
	case k == ckNotNot:
		return Op("!", TAny, Op("!", TAny, sub()))
	case k == ckIf:
		return If(sub(), sub(), sub())
	default:
		switch g.r.Intn(3) {
		case 0:
			return Lit([]int64{1, 2, -3})
		case 1:
			return Lit([]string{"a", "b c"})
		default:
			return Lit([]string{})
		}
	}
}

func c15Run(w *W, idx int) {
	r := w.Rand(idx)
	g := &c15Gen{r: r, opNames: idx%2 == 1}
	undefinedMode := !g.opNames
	var tree *Node
	typed := false
	nk := numChildKinds
	switch {
	case idx%64 == 5:
		// wide calls nested in wide calls: a call or an if that starts while well over a hundred operands of enclosing
		// calls are pending (no single operator has more than 127 operands)
		na := []int{60, 100, 120, 126, 127}[r.Intn(5)]
		nb := []int{2, 10, 27, 100, 127}[r.Intn(5)]
		bv := func() *Node { return Var(fmt.Sprintf("b%d", r.Intn(3)), TBool) }
		inner := []*Node{
			Op("==", TBool, Op("mod", TInt, Var("i0", TInt), Lit(int64(2))), Lit(int64(0))),
			If(bv(), bv(), Op("<", TBool, Var("i1", TInt), Lit(int64(1)))),
			Op("not", TBool, bv()),
			Op("between", TBool, Var("i0", TInt), Lit(int64(-1)), Lit(int64(2))),
		}[r.Intn(4)]
		mid := make([]*Node, nb)
		for i := range mid {
			mid[i] = bv()
		}
		mid[nb-1] = inner
		if r.Intn(3) == 0 {
			mid[r.Intn(nb)] = inner.Clone()
		}
		outer := make([]*Node, na)
		for i := range outer {
			outer[i] = bv()
		}
		pos := na - 1
		if r.Intn(3) == 0 {
			pos = r.Intn(na)
		}
		outer[pos] = Op([]string{"or", "and", "xor"}[r.Intn(3)], TBool, mid...)
		tree = Op([]string{"and", "or"}[r.Intn(2)], TBool, outer...)
		typed = true
		w.Inc("wide_nested_calls")
	case idx%4 == 3:
		// typed random programs: results are meaningful
		gg := stratumByName([]string{"mixed", "two-leaf", "skeleton", "failing"}[r.Intn(4)]).Make(r)
		tree = toInfixable(gg.Root(1 + r.Intn(4)))
		typed = true
		w.Inc("typed_programs")
	default:
		e := idx / 4 * 3
		e += idx % 4
		// enumerate (parent, left kind, right kind)
		p := e % 7
		l := (e / 7) % nk
		rr := (e / 7 / nk) % nk
		depth := (e / 7 / nk / nk) % 3
		switch {
		case p < 5:
			tree = g.bin(p, g.kind(l, depth), g.kind(rr, depth))
		case p == 5:
			tree = Op("!", TAny, g.kind(l, depth))
			if rr%2 == 0 {
				tree = g.bin(rr%5, tree, g.kind(rr, depth))
			}
		default:
			tree = g.call(g.kind(l, depth), g.kind(rr, depth))
		}
	}
	c15Cover(w, tree)
	prefix := tree.Prefix()
	inf1 := tree.Infix(r, false)
	inf2 := tree.Infix(r, true)
	w.Inc("programs")
	w.Inc("redundant_renderings")
	w.Sample(map[bool]string{true: "typed", false: "enumerated"}[typed], fmt.Sprintf("%s   <=>   %s", inf1, prefix))

	var bs []Binding
	if typed {
		bs = genBindings(r, tree, 4, 0.05)
	} else {
		for k := 0; k < 3; k++ {
			bs = append(bs, Binding{Vals: map[string]interface{}{
				"b0": r.Intn(2) == 0, "b1": r.Intn(2) == 0, "b2": r.Intn(2) == 0, "u.vip": r.Intn(2) == 0, "_ok": r.Intn(2) == 0,
				"i0": int64(r.Intn(7) - 3), "i1": int64(r.Intn(7) - 3), "i2": int64(r.Intn(3)), "acct.level": int64(r.Intn(5)), "n_1": int64(r.Intn(5) - 2),
				"version": int64(r.Intn(4)), "date": int64(r.Intn(4) - 1), "mod": int64(1 + r.Intn(3)), "add": int64(r.Intn(3)), "between": int64(r.Intn(3)),
			}})
		}
	}
	// ill-typed bindings: a boolean variable bound to nil or to a number. Both programs are the same tree, so they fail or
	// succeed alike (engine against engine; no oracle for what an ill-typed evaluation should give is involved)
	if len(bs) > 0 {
		var bools []string
		tree.Walk(func(n *Node) {
			if n.Kind == KVar && n.Ty == TBool {
				bools = append(bools, n.Name)
			}
		})
		if len(bools) > 0 {
			b := Binding{Vals: map[string]interface{}{}}
			for k, v := range bs[0].Vals {
				b.Vals[k] = v
			}
			if r.Intn(2) == 0 {
				for _, n := range bools {
					b.Vals[n] = true // nothing decides an and, so the last operands are reached
				}
			}
			b.Vals[bools[len(bools)-1]] = []interface{}{nil, int64(5), "s"}[r.Intn(3)]
			if r.Intn(2) == 0 {
				b.Vals[bools[r.Intn(len(bools))]] = nil
			}
			bs = append(bs, b)
			w.Inc("ill_typed_bindings")
		}
	}
	for _, o := range []OptSet{OptNone, OptAll} {
		pcfg := cfgFor(tree, o, undefinedMode)
		pcc := buildConfig(pcfg, nil)
		pe, pco := compileGuard(pcc, prefix)
		w.Evals++
		if pco.Panic != nil {
			w.Fail("compile-panic/"+normPanic(pco.Panic)+"@"+panicSite(pco.Stack), "Compile panicked on prefix text: %v\nsource: %s", pco.Panic, prefix)
			return
		}
		if pco.Err != nil {
			// e.g. "max_" is an unknown operator: the infix text must be rejected as well
			w.Inc("prefix_rejected")
		}
		var pd string
		var ptree *Node
		if pco.Err == nil {
			pd, _ = dumpGuard(pe)
			ptree, _ = parseDump(pd)
		}
		for ri, itext := range []string{inf1, inf2} {
			icfg := pcfg
			icfg.Infix = true
			icc := buildConfig(icfg, nil)
			ie, ico := compileGuard(icc, itext)
			w.Evals++
			kind := []string{"minimal", "redundant"}[ri]
			if ico.Panic != nil {
				w.Fail("compile-panic/"+normPanic(ico.Panic)+"@"+panicSite(ico.Stack), "Compile panicked on infix text: %v\ninfix: %s\nprefix: %s\n%s", ico.Panic, itext, prefix, ico.Stack)
				continue
			}
			if (ico.Err != nil) != (pco.Err != nil) {
				w.Fail("infix-compile-differs/"+kind, "infix and prefix texts of one tree do not both compile: infix error %v, prefix error %v\ninfix:  %s\nprefix: %s", ico.Err, pco.Err, itext, prefix)
				continue
			}
			if ico.Err != nil {
				continue
			}
			id, _ := dumpGuard(ie)
			itree, ierr := parseDump(id)
			if ierr != nil || ptree == nil {
				w.Fail("dump-unreadable", "dump unreadable: %v\n%s", ierr, id)
				continue
			}
			if !treeEq(itree, ptree, true) {
				w.Fail("infix-tree-differs/"+kind, "the infix text compiles to a different tree than the prefix text\ninfix:  %s\nprefix: %s\ninfix tree:  %s\nprefix tree: %s\noptions: %s", itext, prefix, oneLine(id), oneLine(pd), o)
				continue
			}
			if id == pd {
				w.Inc("identical_dumps")
			}
			if nontrivialInfix(tree) {
				w.Nontrivial(itext)
			}
			for _, b := range bs {
				o1, _ := callExpr(pe, CallEval, fetcherFor(b, nil), nil, false)
				o2, _ := callExpr(ie, CallEval, fetcherFor(b, nil), nil, false)
				w.Evals += 2
				same := (o1.Err == nil) == (o2.Err == nil) && (o1.Panic == nil) == (o2.Panic == nil)
				if same && o1.Err == nil && o1.Panic == nil {
					same = valEq(o1.V, o2.V)
				}
				if !same {
					w.Fail("infix-result-differs/"+kind, "infix and prefix programs evaluate differently: %s vs %s\ninfix:  %s\nprefix: %s\nbinding: %s", o2, o1, itext, prefix, b)
				}
			}
		}
	}
}

func levelOf(n *Node) int {
	if !isInfixBinary(n) {
		return -1
	}
	for i, l := range c15Levels {
		for _, o := range l.ops {
			if o == n.Name {
				return i
			}
		}
	}
	return -1
}

func c15Cover(w *W, tree *Node) {
	tree.Walk(func(n *Node) {
		if p := levelOf(n); p >= 0 {
			for side, c := range n.Ch {
				if cl := levelOf(c); cl >= 0 {
					w.Inc(fmt.Sprintf("pair_%s_%s_%s", c15Levels[p].name, c15Levels[cl].name, []string{"L", "R"}[side]))
				}
				if isInfixNot(c) {
					w.Inc("binary_over_not")
				}
				if c.Kind == KOp && !isInfixBinary(c) && !isInfixNot(c) {
					w.Inc("call_in_operand")
				}
			}
		}
		if isInfixNot(n) {
			if isInfixNot(n.Ch[0]) {
				w.Inc("not_over_not")
			}
			if isInfixBinary(n.Ch[0]) {
				w.Inc("not_over_binary")
			}
		}
		if n.Kind == KOp && len(n.Ch) == 0 {
			w.Inc("zero_arg_calls")
		}
		if n.Kind == KIf {
			w.Inc("if_calls")
		}
		if n.Kind == KLit {
			switch n.Val.(type) {
			case []int64, []string:
				w.Inc("list_literals")
			}
		}
	})
}

func nontrivialInfix(tree *Node) bool {
	res := false
	tree.Walk(func(n *Node) {
		if isInfixBinary(n) || isInfixNot(n) {
			for _, c := range n.Ch {
				if (isInfixBinary(c) || isInfixNot(c)) && nodePrec(c) != nodePrec(n) {
					res = true
				}
				if c.Kind == KOp && !isInfixBinary(c) && !isInfixNot(c) {
					res = true
				}
			}
		}
	})
	return res
}
