package main

// Infix renderer. Parentheses are derived from the precedence table in the
// property text (* / % over + - over ! over comparisons over && over ||,
// binary operators left-associative, prefix ! and calls binding to what
// follows), not from the engine's parser.

import (
	"math/rand"
	"strconv"
	"strings"
)

func infixPrec(name string) int {
	switch name {
	case "*", "/", "%":
		return 8
	case "+", "-":
		return 7
	case "!":
		return 6
	case "=", "==", "!=", "<", ">", "<=", ">=":
		return 5
	case "&", "&&":
		return 4
	case "|", "||":
		return 3
	}
	return 0
}

func isInfixBinary(n *Node) bool {
	return n.Kind == KOp && len(n.Ch) == 2 && infixPrec(n.Name) > 0 && n.Name != "!"
}

func isInfixNot(n *Node) bool { return n.Kind == KOp && len(n.Ch) == 1 && n.Name == "!" }

// nodePrec: precedence of the top construct of n as rendered (atoms and calls bind tightest).
func nodePrec(n *Node) int {
	switch {
	case isInfixBinary(n):
		return infixPrec(n.Name)
	case isInfixNot(n):
		return 6
	}
	return 100
}

type infixR struct {
	r         *rand.Rand
	redundant bool
}

func (n *Node) Infix(r *rand.Rand, redundant bool) string {
	ir := &infixR{r: r, redundant: redundant}
	return ir.render(n)
}

func (ir *infixR) sp() string {
	if ir.redundant && ir.r.Intn(4) == 0 {
		return []string{"  ", "\t", " \n ", "   "}[ir.r.Intn(4)]
	}
	return " "
}

func (ir *infixR) osp() string { // optional space
	if ir.redundant && ir.r.Intn(3) == 0 {
		return " "
	}
	return ""
}

func (ir *infixR) paren(s string) string {
	return "(" + ir.osp() + s + ir.osp() + ")"
}

func (ir *infixR) maybeExtra(s string) string {
	if ir.redundant && ir.r.Intn(5) == 0 {
		s = ir.paren(s)
		if ir.r.Intn(4) == 0 {
			s = ir.paren(s)
		}
	}
	return s
}

func infixLit(v interface{}) string {
	switch x := v.(type) {
	case []int64:
		s := make([]string, len(x))
		for i, e := range x {
			s[i] = strconv.FormatInt(e, 10)
		}
		return "[" + strings.Join(s, " ") + "]"
	case []string:
		s := make([]string, len(x))
		for i, e := range x {
			s[i] = `"` + e + `"`
		}
		return "[" + strings.Join(s, " ") + "]"
	}
	return litText(v)
}

func (ir *infixR) render(n *Node) string {
	switch {
	case n.Kind == KLit:
		if n.Const != "" {
			return ir.maybeExtra(n.Const)
		}
		return ir.maybeExtra(infixLit(n.Val))
	case n.Kind == KVar:
		return ir.maybeExtra(n.Name)
	case isInfixBinary(n):
		p := infixPrec(n.Name)
		l := ir.render(n.Ch[0])
		rr := ir.render(n.Ch[1])
		lp, rp := nodePrec(n.Ch[0]), nodePrec(n.Ch[1])
		// left-associative: the left operand needs parentheses when it binds weaker,
		// the right operand when it does not bind tighter
		if lp < p || (isInfixNot(n.Ch[0]) && p > 6) {
			l = ir.paren(l)
		}
		if rp <= p || (isInfixNot(n.Ch[1]) && p > 6) {
			rr = ir.paren(rr)
		}
		return ir.maybeExtra(l + ir.sp() + n.Name + ir.sp() + rr)
	case isInfixNot(n):
		c := ir.render(n.Ch[0])
		// ! binds to what follows: an operand that binds weaker than ! needs parentheses
		if cp := nodePrec(n.Ch[0]); cp < 6 {
			c = ir.paren(c)
		}
		sep := ""
		if ir.r.Intn(2) == 0 || strings.HasPrefix(c, "-") || strings.HasPrefix(c, "!") || strings.HasPrefix(c, "\"") || strings.HasPrefix(c, "[") || (c[0] >= '0' && c[0] <= '9') {
			sep = " "
		}
		return ir.maybeExtra("!" + sep + c)
	default:
		// named call, incl. if(c, a, b) and zero-argument calls
		args := make([]string, len(n.Ch))
		for i, c := range n.Ch {
			args[i] = ir.render(c)
		}
		return ir.maybeExtra(n.Name + ir.osp() + "(" + ir.osp() + strings.Join(args, ir.osp()+","+ir.sp()) + ir.osp() + ")")
	}
}

// toInfixable rewrites a tree so that it can be written in infix notation
// without changing its alias-normalised shape: symbolic operators that are not
// binary (or unary !) get their named alias.
func toInfixable(n *Node) *Node {
	c := *n
	c.Ch = make([]*Node, len(n.Ch))
	for i, x := range n.Ch {
		c.Ch[i] = toInfixable(x)
	}
	if c.Kind == KOp && infixPrec(c.Name) > 0 {
		ok := (c.Name == "!" && len(c.Ch) == 1) || (c.Name != "!" && len(c.Ch) == 2)
		if !ok {
			c.Name = canonName(c.Name)
		}
	}
	return &c
}
