package main

// C02 — every optimization combination preserves the meaning of the expression.

import (
	"fmt"
	"math/rand"
	"strings"

	"github.com/onheap/eval"
)

func init() {
	register(&Prop{
		ID: "C02",
		Rule: "Each program is compiled under all 16 optimization subsets set programmatically, the same 16 through ';;;;' directives over a base config holding a different subset, " +
			"and (Reordering subsets) random and pathological (NaN/Inf/huge/negative) cost maps; every variant is evaluated on every fully-bound binding. Verdicts: all variants returning a value agree; " +
			"if strict evaluation of every reachable operand succeeds all variants return that value; with Reordering off every variant returns the reference value when plain evaluation succeeds; " +
			"directive-selected and option-selected variants have equal Dump text and equal results. Programs: small-scope enumeration (all trees <=2 internal nodes; thorough <=3) x all assignments, " +
			"random strata, fixed guard patterns at the guarded value. A program is non-trivial when >=2 of its 16 variants differ in Dump or DumpTable text; distinct = distinct source text.",
		Assumptions: []string{
			"reference interpreter ref.go; 'strict' = every operand of every reached and/or is evaluated, if stays lazy",
			"harness operators are pure; every variable is bound",
		},
		NumCases: func(tier string) int {
			if tier == "thorough" {
				return c01EnumCases("thorough") + 400000
			}
			return c01EnumCases("quick") + 4000
		},
		Run:    c02Run,
		Floors: c02Floors,
		Extra: func(m *Merged, tier string) map[string]interface{} {
			k := 2
			if tier == "thorough" {
				k = 3
			}
			sub := []string{fmt.Sprintf("%s", "every boolean-core tree with <=2 internal nodes x every leaf labelling x every true/false assignment x all 16 optimization subsets")}
			if k == 3 {
				sub = append(sub, "trees with 3 internal nodes: every shape, labellings sampled as stated in 'rule'")
			}
			return map[string]interface{}{"exhaustive_subspaces": sub, "enumerated_shapes": len(shapesUpTo(k))}
		},
	})
}

func guardPatterns(r *rand.Rand) *Node {
	x := Var("i0", TInt)
	c := Lit(int64(10 + r.Intn(90)))
	k := Lit(int64(r.Intn(5)))
	div := func() *Node { return Op([]string{"/", "div", "%", "mod"}[r.Intn(4)], TInt, c, x) }
	g := func() *Node { return Op([]string{"!=", "ne"}[r.Intn(2)], TBool, x, Lit(int64(0))) }
	g2 := func() *Node {
		return Op("not", TBool, Op([]string{"=", "eq", "=="}[r.Intn(3)], TBool, x, Lit(int64(0))))
	}
	body := func() *Node { return Op([]string{">", "<", ">=", "="}[r.Intn(4)], TBool, div(), k) }
	and := func(ch ...*Node) *Node { return Op([]string{"and", "&", "&&"}[r.Intn(3)], TBool, ch...) }
	or := func(ch ...*Node) *Node { return Op([]string{"or", "|", "||"}[r.Intn(3)], TBool, ch...) }
	b := Var("b0", TBool)
	switch r.Intn(9) {
	case 0:
		return and(g(), body())
	case 1:
		return and(b, g(), body(), Var("b1", TBool))
	case 2:
		return and(and(b, g()), and(body(), Var("b1", TBool), body()))
	case 3:
		return or(Op("=", TBool, x, Lit(int64(0))), body())
	case 4:
		return If(g(), body(), Lit(false))
	case 5:
		return and(g2(), or(body(), b))
	case 6:
		return and(b, and(g(), and(body(), b)))
	case 7:
		return or(b, and(g(), body()), Var("b1", TBool))
	default:
		return and(If(b, g(), g2()), Op(">", TBool, Op("+", TInt, div(), Lit(int64(1))), k))
	}
}

func c02Run(w *W, idx int) {
	ne := c01EnumCases(w.Tier)
	if idx < ne {
		shapes := enumShapesFor(w.Tier)
		s := shapes[idx/enumChunks]
		labellingsFor(w, s, shapeInternal(s), idx%enumChunks, func(labels []int) {
			tree, vars := s.build(labels)
			var bs []Binding
			for a := 0; a < ipow(2, len(vars)); a++ {
				bs = append(bs, enumAssignment(vars, a, 2))
			}
			c02Program(w, w.Rand(idx), "enum", tree, bs, false, false)
		})
		return
	}
	r := w.Rand(idx)
	k := idx - ne
	switch {
	case k%20 == 8:
		tree := wideAndOrGroups(r)
		c02Program(w, r, "wide-andor-groups", tree, genBindings(r, tree, 4, 0), true, false)
	case k%10 == 9:
		tree := guardPatterns(r)
		var bs []Binding
		for _, b0 := range []bool{true, false} {
			for _, b1 := range []bool{true, false} {
				bs = append(bs, Binding{Vals: map[string]interface{}{"i0": int64(0), "b0": b0, "b1": b1}})
			}
		}
		bs = append(bs, Binding{Vals: map[string]interface{}{"i0": int64(3), "b0": true, "b1": true}})
		c02Program(w, r, "guard", tree, bs, true, true)
		c02OneShot(w, r, tree, bs)
		{
			// a guard that costs more than what it guards (Reordering would evaluate the guarded operand first)
			x, y := Var("i0", TInt), Var("i1", TInt)
			guardOp := Op("!=", TBool, Op("*", TInt, x, y, Lit(int64(1)), Lit(int64(1+r.Intn(3)))), Lit(int64(0)))
			body := Op(">", TBool, Op([]string{"/", "%"}[r.Intn(2)], TInt, Lit(int64(100)), x.Clone()), Lit(int64(1)))
			t := Op("and", TBool, guardOp, body)
			if r.Intn(2) == 0 {
				t = Op("or", TBool, Op("=", TBool, Op("*", TInt, x.Clone(), y.Clone(), Lit(int64(1)), Lit(int64(1))), Lit(int64(0))), body)
			}
			c02OneShot(w, r, t, []Binding{{Vals: map[string]interface{}{"i0": int64(0), "i1": int64(5)}}, {Vals: map[string]interface{}{"i0": int64(7), "i1": int64(5)}}})
		}
	default:
		// skeleton and two-leaf weighted up
		names := []string{"skeleton", "two-leaf", "skeleton", "mixed", "two-leaf", "failing", "wide-deep", "mixed", "skeleton"}
		s := stratumByName(names[k%len(names)])
		g := s.Make(r)
		g.Foreign = true
		if s.Name == "wide-deep" {
			g.Budget = 400
		}
		tree := g.Root(s.Dep(r))
		nb := 6
		if w.Thorough() {
			nb = 10
		}
		bs := genBindings(r, tree, nb, 0)
		if k%3 == 0 {
			// ill-typed bindings: boolean variables bound to something that is not a boolean (nil from a lookup that found
			// nothing, a number, a string). Most configurations then fail; those that return a value must still agree.
			var bools []string
			tree.Walk(func(n *Node) {
				if n.Kind == KVar && n.Ty == TBool {
					bools = append(bools, n.Name)
				}
			})
			if len(bools) > 0 {
				for j := 0; j < 2; j++ {
					b := Binding{Vals: map[string]interface{}{}}
					for kk, v := range bs[r.Intn(len(bs))].Vals {
						b.Vals[kk] = v
					}
					for c := 0; c <= r.Intn(2); c++ {
						b.Vals[bools[r.Intn(len(bools))]] = []interface{}{nil, int64(5), int64(0), "s", []int64{1}}[r.Intn(5)]
					}
					b.Vals[c02IllTypedKey] = true
					bs = append(bs, b)
					w.Inc("ill_typed_bindings")
				}
			}
		}
		c02Program(w, r, s.Name, tree, bs, true, true)
	}
}

// c02IllTypedKey marks a binding that binds a boolean variable to a non-boolean value (stored in the binding itself,
// under a name no expression uses)
const c02IllTypedKey = "(ill-typed binding)"

// c02FastAndOrFinding: is this failure of a FastEvaluation configuration, under an ill-typed binding, the open finding
// "an inlined two-leaf and/or applies its operator to both leaves although the first one decides"? Yes exactly when the
// reference, run on the optimized tree with that one rule added, fails at such a node - and nothing else explains it.
func c02FastAndOrFinding(v *Variant, b Binding, o Outcome) bool {
	if b.Vals[c02IllTypedKey] == nil || v.Cfg.EffectiveOpts()&OptFE == 0 || o.Err == nil || o.Panic != nil || v.DumpTree == nil {
		return false
	}
	env := refEnv(b)
	env.FastStrict = true
	_, err := env.Eval(v.DumpTree)
	be, ok := err.(*BuiltinErr)
	return ok && strings.HasPrefix(be.Why, "non-bool operand of an inlined two-leaf")
}

func c02Program(w *W, r *rand.Rand, stratum string, tree *Node, bs []Binding, directives, costs bool) {
	src := tree.Prefix()
	vs := optVariants(w, r, tree, r.Intn(2) == 0, 0, directives, costs)
	w.Inc("programs")
	w.Inc("programs_" + stratum)
	if len(vs) == 0 {
		return
	}
	w.Sample(stratum, src)

	// which optimizers changed the program (API-level observation)
	byOpt := map[OptSet]*Variant{}
	dumps := map[string]bool{}
	for _, v := range vs {
		if v.Label == "options" {
			byOpt[v.Cfg.Opts] = v
			if v.Table == "" {
				v.Table = tableGuard(v)
			}
			dumps[v.Dump+"\x00"+v.Table] = true
		}
	}
	if none := byOpt[OptNone]; none != nil {
		for i, nm := range []string{"cf", "rn", "fe", "ro"} {
			if o := byOpt[OptSet(1<<uint(i))]; o != nil {
				if o.Dump != none.Dump || (nm == "fe" && strings.Contains(o.Table, "OPf")) {
					w.Inc("optimizer_changed_" + nm)
				}
			}
		}
	}
	if len(dumps) >= 2 {
		w.Nontrivial(src)
	}

	// directive equivalence on Dump text
	for _, v := range vs {
		if !v.Directive {
			continue
		}
		p := byOpt[v.Cfg.Opts]
		if p == nil {
			continue
		}
		w.Inc("directive_pairs")
		if p.Dump != v.Dump {
			w.Fail("directive-vs-options/dump", "directive-selected %s differs from option-selected %s\nsource: %s\ndirective dump: %s\noptions dump:   %s", v.Cfg.Opts, p.Cfg.Opts, v.Src, oneLine(v.Dump), oneLine(p.Dump))
		}
		if hooksCompiled {
			a, _ := progSnapshot(v.E)
			b, _ := progSnapshot(p.E)
			if a == b {
				w.Inc("directive_identical_programs")
			}
		}
	}

	for _, b := range bs {
		env := refEnv(b)
		want, wantErr := env.Eval(tree)
		senv := refEnv(b)
		senv.StrictAll = true
		sv, serr := senv.Eval(tree)
		if serr == nil {
			w.Inc("strict_all_success")
		}
		if stratum == "guard" && b.Vals["i0"] == int64(0) {
			w.Inc("guard_cases_at_guarded_value")
		}

		var firstVal *Outcome
		var firstV *Variant
		outs := make([]Outcome, len(vs))
		for i, v := range vs {
			tr := NewTracer()
			tr.MaxStack = v.MaxStack
			o, _ := callExpr(v.E, CallEval, fetcherFor(b, nil), tr, false)
			outs[i] = o
			w.Evals++
			if tr.Bad != "" {
				w.Fail("step-monitor/"+stepSig(tr.Bad), "%s\n%s", tr.Bad, describeCase(v.Src, v.Cfg, b))
			}
			if o.Panic != nil {
				w.Fail("eval-panic/"+normPanic(o.Panic)+"@"+panicSite(o.Stack), "Eval panicked: %v\n%s\n%s", o.Panic, describeCase(v.Src, v.Cfg, b), o.Stack)
				continue
			}
			if o.Err == nil {
				if firstVal == nil {
					firstVal, firstV = &outs[i], v
				} else if !valEq(firstVal.V, o.V) {
					w.Fail("configs-disagree/"+stratum, "two configurations return different values\n%s -> %s\n%s -> %s\nsource: %s\nbinding: %s\ndump A: %s\ndump B: %s",
						firstV.Cfg, valText(firstVal.V), v.Cfg, valText(o.V), src, b, oneLine(firstV.Dump), oneLine(v.Dump))
				}
			}
			if (serr == nil || (v.Cfg.Opts&OptRO == 0 && wantErr == nil)) && c02FastAndOrFinding(v, b, o) {
				{
					w.Fail("ill-typed-leaf/fast-two-leaf-andor-applies-operator-although-decided", "plain left-to-right evaluation gives %s, this FastEvaluation configuration gives %s: an inlined two-leaf and/or applies its operator to both leaves, so an ill-typed second leaf fails although the first leaf decides\n%s\ndump: %s", valText(want), o, describeCase(v.Src, v.Cfg, b), oneLine(v.Dump))
					continue
				}
			}
			if serr == nil {
				if o.Err != nil || !valEq(o.V, sv) {
					w.Fail("strict-success-not-returned/"+stratum, "evaluating every reachable operand succeeds with %s, but this configuration gives %s\n%s\ndump: %s", valText(sv), o, describeCase(v.Src, v.Cfg, b), oneLine(v.Dump))
				}
			}
			if v.Cfg.Opts&OptRO == 0 && wantErr == nil {
				if o.Err != nil || !valEq(o.V, want) {
					w.Fail("reordering-off-differs-from-unoptimized/"+stratum, "plain left-to-right evaluation gives %s, this Reordering-off configuration gives %s\n%s\ndump: %s", valText(want), o, describeCase(v.Src, v.Cfg, b), oneLine(v.Dump))
				}
			}
		}
		// directive variants behave like their option twins
		for i, v := range vs {
			if !v.Directive {
				continue
			}
			for j, p := range vs {
				if p.Label == "options" && p.Cfg.Opts == v.Cfg.Opts {
					a, c := outs[i], outs[j]
					if (a.Err != nil) != (c.Err != nil) || (a.Err == nil && !valEq(a.V, c.V)) {
						w.Fail("directive-vs-options/result", "directive-selected and option-selected %s behave differently: %s vs %s\nsource: %s\nbinding: %s", v.Cfg.Opts, a, c, v.Src, b)
					}
				}
			}
		}
	}
}

func c02Floors(m *Merged, tier string) []string {
	var unmet []string
	for _, nm := range []string{"cf", "rn", "fe", "ro"} {
		if m.C("optimizer_changed_"+nm) < 100 {
			unmet = append(unmet, fmt.Sprintf("optimizer %s changed only %d programs (<100)", nm, m.C("optimizer_changed_"+nm)))
		}
	}
	if m.C("guard_cases_at_guarded_value") < 100 {
		unmet = append(unmet, "fewer than 100 guard-pattern cases at the guarded value")
	}
	if m.C("directive_pairs") < 1000 {
		unmet = append(unmet, "fewer than 1000 directive/option pairs")
	}
	if m.C("strict_all_success") < 1000 {
		unmet = append(unmet, "fewer than 1000 strict-success cases")
	}
	return unmet
}

// c02OneShot: the option-less helper eval.Eval(source, values) compiles and evaluates in one call. The same body is
// evaluated without a header, then under directive headers that switch optimizations off (and the other way round):
// every call honours the directives of its own source, whatever was evaluated before.
func c02OneShot(w *W, r *rand.Rand, tree *Node, bs []Binding) {
	body := tree.Prefix()
	headers := []string{"", ";;;; reordering: false\n", ";;;; optimize: false\n", ";; a guard\n;;;; reordering:false\n", ";;;; optimize:false, constant_folding:true\n"}
	order := r.Perm(len(headers))
	if r.Intn(2) == 0 {
		// the plain body first: the order of the default optimizations is what gets compiled first
		for k, x := range order {
			if x == 0 {
				order[0], order[k] = order[k], order[0]
			}
		}
	}
	for _, b := range bs {
		want, wantErr := refEnv(b).Eval(tree)
		for _, hi := range order {
			src := headers[hi] + body
			o := guard(func() (eval.Value, error) { return eval.Eval(src, b.Vals) })
			w.Evals++
			w.Inc("one_shot_eval_calls")
			if o.Panic != nil {
				w.Fail("eval-panic/"+normPanic(o.Panic)+"@"+panicSite(o.Stack), "eval.Eval panicked: %v\nsource: %q", o.Panic, src)
				return
			}
			if hi != 0 && wantErr == nil && (o.Err != nil || !valEq(o.V, want)) {
				w.Fail("reordering-off-differs-from-unoptimized/one-shot", "eval.Eval(source, values) with a header that switches Reordering off gives %s, plain left-to-right evaluation gives %s (earlier calls evaluated the same body under other headers)\nsource: %q\nbinding: %s", o, valText(want), src, b)
				return
			}
		}
	}
}
