package main

// C03 — skipped and/or operands and untaken if-branches are never evaluated.

import (
	"fmt"
	"github.com/onheap/eval"
	"math/rand"
)

func init() {
	register(&Prop{
		ID: "C03",
		Rule: "Each program is compiled under all 16 optimization subsets (plus cost-map variants); for every fully-bound binding the sequence of VariableFetcher.Get calls and registered-operator calls " +
			"(name, arguments, result, incl. the failing last call) observed by a recording fetcher / recording operators is compared with the effect trace of left-to-right short-circuit evaluation of the " +
			"tree that Dump shows (parsed by an independent reader, evaluated by the reference interpreter). With FastEvaluation on, the extra fetch of the second leaf of a two-leaf and/or is permitted and nothing else. " +
			"A case (program+config+binding) is non-trivial when the reference evaluation skipped >=1 fetch or registered-operator call that strict evaluation would perform; distinct = distinct (source, subset, binding).",
		Assumptions: []string{
			"reference interpreter ref.go and the independent Dump reader sexpr.go",
			"Dump shows the optimized form (its faithfulness is C13's claim)",
			"harness operators are pure; every variable is bound",
		},
		NumCases: func(tier string) int {
			if tier == "thorough" {
				return c01EnumCases("thorough") + 250000
			}
			return c01EnumCases("quick") + 4000
		},
		Run:    c03Run,
		Floors: c03Floors,
		Extra: func(m *Merged, tier string) map[string]interface{} {
			k := 2
			if tier == "thorough" {
				k = 3
			}
			sub := []string{fmt.Sprintf("%s", "every boolean-core tree with <=2 internal nodes x every leaf labelling (with registered operators wrapped around every second variable) x every true/false assignment x all 16 optimization subsets")}
			if k == 3 {
				sub = append(sub, "trees with 3 internal nodes: every shape, labellings sampled as stated in 'rule'")
			}
			return map[string]interface{}{"exhaustive_subspaces": sub, "enumerated_shapes": len(shapesUpTo(k))}
		},
	})
}

// effect-carrying leaves for the enumerator: replace variable-free programs'
// constant slots is not needed; enumerated programs already fetch variables.

func c03Run(w *W, idx int) {
	ne := c01EnumCases(w.Tier)
	if idx < ne {
		shapes := enumShapesFor(w.Tier)
		s := shapes[idx/enumChunks]
		labellingsFor(w, s, shapeInternal(s), idx%enumChunks, func(labels []int) {
			tree, vars := s.build(labels)
			if len(vars) == 0 {
				return
			}
			// wrap every second variable leaf into a registered operator so that skipped calls are observable
			k := 0
			tree = mapLeaves(tree, func(n *Node) *Node {
				if n.Kind == KVar && n.Ty == TBool {
					k++
					if k%2 == 0 {
						return Op("cb", TBool, n)
					}
				}
				return n
			})
			var bs []Binding
			for a := 0; a < ipow(2, len(vars)); a++ {
				bs = append(bs, enumAssignment(vars, a, 2))
			}
			c03Program(w, w.Rand(idx), "enum", tree, bs, false)
		})
		return
	}
	r := w.Rand(idx)
	k := idx - ne
	names := []string{"skeleton", "two-leaf", "mixed", "failing", "skeleton", "wide-deep", "two-leaf", "mixed"}
	s := stratumByName(names[k%len(names)])
	g := s.Make(r)
	if s.Name == "wide-deep" {
		g.Budget = 400
	}
	if k%13 == 6 {
		// closed programs: no variables at all, only literals, constants and operators (registered ones declared stateless
		// or not). Whatever constant folding leaves of them is evaluated anew by every evaluation.
		g.BoolVars, g.IntVars, g.StrVars, g.IListVars, g.SListVars, g.ISetVars, g.SSetVars = nil, nil, nil, nil, nil, nil, nil
		g.Stateless, g.Custom = true, true
		w.Inc("closed_programs")
	}
	tree := g.Root(s.Dep(r))
	if s.Name == "skeleton" {
		// custom operators inside operands that get skipped
		tree = mapLeaves(tree, func(n *Node) *Node {
			if n.Kind == KVar && r.Intn(3) == 0 {
				return Op("cb", TBool, n)
			}
			return n
		})
	}
	nb := 6
	if w.Thorough() {
		nb = 10
	}
	bs := genBindings(r, tree, nb, 0)
	// plus bindings in which some fetches fail (the failing call is an observable effect too)
	bs = append(bs, genBindings(r, tree, 3, 0.15)[1:]...)
	c03Program(w, r, s.Name, tree, bs, true)
}

func mapLeaves(n *Node, f func(*Node) *Node) *Node {
	if n.IsLeaf() {
		return f(n)
	}
	c := *n
	c.Ch = make([]*Node, len(n.Ch))
	for i, x := range n.Ch {
		c.Ch[i] = mapLeaves(x, f)
	}
	return &c
}

func c03Program(w *W, r *rand.Rand, stratum string, tree *Node, bs []Binding, costs bool) {
	src := tree.Prefix()
	vs := optVariants(w, r, tree, r.Intn(2) == 0, 0, false, costs)
	w.Inc("programs")
	w.Inc("programs_" + stratum)
	if len(vs) == 0 {
		return
	}
	w.Sample(stratum, src)
	for _, v := range vs {
		if v.DumpErr != nil {
			w.Inconclusive = appendCapped(w.Inconclusive, fmt.Sprintf("Dump text unreadable (%v) for %s under %s", v.DumpErr, firstN(src, 200), v.Cfg))
			continue
		}
		if v.CfgRec.CompileCalls > 0 {
			w.Count("compile_time_calls", int64(v.CfgRec.CompileCalls))
		}
		fe := v.Cfg.Opts&OptFE != 0
		for _, b := range bs {
			env := refEnv(b)
			env.FastOpt = fe
			env.WantCov = true
			_, refErr := env.Eval(v.DumpTree)
			// the permitted extra fetch of a two-leaf and/or may itself fail when its variable is unbound:
			// such an evaluation is outside what the property fixes, skip it
			skip := false
			for _, e := range env.Trace {
				if e.Optional && e.Get {
					if _, bound := b.Vals[e.Name]; !bound {
						skip = true
					}
				}
			}
			if skip {
				w.Inc("skipped_optional_fetch_of_unbound_variable")
				continue
			}
			if refErr == ErrUnbound {
				w.Inc("cases_with_failing_fetch")
			}
			rec := &Recorder{}
			tr := NewTracer()
			tr.MaxStack = v.MaxStack
			o, _ := callExpr(v.E, CallEval, fetcherFor(b, rec), tr, false)
			w.Evals++
			if o.Panic != nil {
				w.Fail("eval-panic/"+normPanic(o.Panic)+"@"+panicSite(o.Stack), "Eval panicked: %v\n%s\n%s", o.Panic, describeCase(v.Src, v.Cfg, b), o.Stack)
				continue
			}
			if !matchEffects(env.Trace, rec.Effects) {
				kind := "extra-or-missing-effects"
				if len(rec.Effects) > len(env.Trace) {
					kind = "extra-effects"
				} else if len(rec.Effects) < countMandatory(env.Trace) {
					kind = "missing-effects"
				}
				w.Fail("effects/"+kind+"/"+stratum, "observed fetches/operator calls differ from left-to-right short-circuit evaluation of the dumped tree\nexpected (?=optional): %s\nobserved:              %s\n%s\ndump: %s\nengine result: %s, reference error: %v",
					effsText(env.Trace), effsText(rec.Effects), describeCase(v.Src, v.Cfg, b), oneLine(v.Dump), o, refErr)
			}
			// EvalBool is Eval plus a type check on the result: the same effects, every time it is called
			if tree.Ty == TBool && refErr == nil {
				for rep := 0; rep < 2; rep++ {
					rec3 := &Recorder{}
					var ob bool
					o3 := guard(func() (eval.Value, error) {
						var err error
						ob, err = v.E.EvalBool(&eval.Ctx{VariableFetcher: fetcherFor(b, rec3)})
						return ob, err
					})
					w.Evals++
					w.Inc("evalbool_traces_compared")
					if o3.Panic != nil {
						w.Fail("eval-panic/"+normPanic(o3.Panic)+"@"+panicSite(o3.Stack), "EvalBool panicked: %v\n%s", o3.Panic, describeCase(v.Src, v.Cfg, b))
						break
					}
					if !matchEffects(env.Trace, rec3.Effects) || !outcomeEq(o, o3) {
						w.Fail("effects/evalbool/"+stratum, "EvalBool call %d on the same program: its fetches/operator calls or its result differ from Eval's\nexpected (?=optional): %s\nobserved:              %s\nEval: %s, EvalBool: %s\n%s\ndump: %s",
							rep+1, effsText(env.Trace), effsText(rec3.Effects), o, o3, describeCase(v.Src, v.Cfg, b), oneLine(v.Dump))
						break
					}
				}
			}
			// A variable that counts as cached but fails when it is read: TryEval performs the same effects as Eval up to and
			// including the failing read, and fails like Eval
			if !allBoundNames(v.DumpTree, b) {
				rec4 := &Recorder{}
				f4 := fetcherFor(b, rec4)
				f4.FailCached = true
				o4, _ := callExpr(v.E, CallTryEval, f4, nil, false)
				w.Evals++
				w.Inc("tryeval_traces_with_failing_cached_reads")
				if o4.Panic != nil {
					w.Fail("tryeval-panic/"+normPanic(o4.Panic)+"@"+panicSite(o4.Stack), "TryEval panicked: %v\n%s", o4.Panic, describeCase(v.Src, v.Cfg, b))
				} else if !matchEffects(env.Trace, rec4.Effects) || !outcomeEq(o, o4) {
					w.Fail("effects/tryeval-failing-cached-read/"+stratum, "every variable counts as cached, reading an unbound one fails: TryEval's fetches/operator calls or its outcome differ from Eval's\nexpected (?=optional): %s\nobserved:              %s\nEval: %s, TryEval: %s\n%s\ndump: %s",
						effsText(env.Trace), effsText(rec4.Effects), o, o4, describeCase(v.Src, v.Cfg, b), oneLine(v.Dump))
				}
			}
			// TryEvalBool is TryEval plus a check of the result type: one evaluation's effects, whatever the result type
			if allBoundNames(v.DumpTree, b) && w.Evals%3 == 0 {
				rec5 := &Recorder{}
				guard(func() (eval.Value, error) {
					bv, err := v.E.TryEvalBool(&eval.Ctx{VariableFetcher: fetcherFor(b, rec5)})
					return bv, err
				})
				w.Evals++
				w.Inc("tryevalbool_traces_compared")
				if !matchEffects(env.Trace, rec5.Effects) {
					w.Fail("effects/tryevalbool/"+stratum, "TryEvalBool with every variable available performs other fetches/operator calls than one left-to-right evaluation of the dumped tree\nexpected (?=optional): %s\nobserved:              %s\n%s\ndump: %s",
						effsText(env.Trace), effsText(rec5.Effects), describeCase(v.Src, v.Cfg, b), oneLine(v.Dump))
				}
			}
			// TryEval with every variable available evaluates the same program: the same effects are expected
			// (only on fully bound bindings: TryEval treats an unbound variable as unavailable)
			if allBoundNames(v.DumpTree, b) {
				rec2 := &Recorder{}
				o2, _ := callExpr(v.E, CallTryEval, fetcherFor(b, rec2), nil, false)
				w.Evals++
				w.Inc("tryeval_traces_compared")
				if o2.Panic != nil {
					w.Fail("tryeval-panic/"+normPanic(o2.Panic)+"@"+panicSite(o2.Stack), "TryEval panicked: %v\n%s\n%s", o2.Panic, describeCase(v.Src, v.Cfg, b), o2.Stack)
				} else if !matchEffects(env.Trace, rec2.Effects) {
					w.Fail("effects/tryeval-all-available/"+stratum, "TryEval with every variable available performs other fetches/operator calls than left-to-right short-circuit evaluation of the dumped tree\nexpected (?=optional): %s\nobserved:              %s\n%s\ndump: %s\nTryEval result: %s",
						effsText(env.Trace), effsText(rec2.Effects), describeCase(v.Src, v.Cfg, b), oneLine(v.Dump), o2)
				}
			}
			cv := env.Cov
			if cv.SkippedGets > 0 {
				w.Inc("cases_with_skipped_fetch")
			}
			if cv.SkippedCalls > 0 {
				w.Inc("cases_with_skipped_custom_call")
			}
			if cv.UntakenBranchGets+cv.UntakenBranchCalls > 0 {
				w.Inc("cases_with_untaken_branch_effects")
			}
			if cv.AndFalse > 0 && (cv.SkippedGets+cv.SkippedCalls) > 0 {
				w.Inc("skips_by_and_false")
			}
			if cv.OrTrue > 0 && (cv.SkippedGets+cv.SkippedCalls) > 0 {
				w.Inc("skips_by_or_true")
			}
			if cv.MultiLevel > 0 {
				w.Inc("skips_multilevel")
			}
			if cv.IfBranchDecides > 0 {
				w.Inc("skips_from_if_branch")
			}
			for _, e := range env.Trace {
				if e.Optional {
					w.Inc("two_leaf_andor_optional_fetch")
					break
				}
			}
			if cv.SkippedGets+cv.SkippedCalls+cv.UntakenBranchGets+cv.UntakenBranchCalls > 0 {
				w.Nontrivial(src, v.Cfg.Opts.String(), v.CostKind, b.String())
			}
		}
	}
}

func countMandatory(e []Eff) int {
	n := 0
	for _, x := range e {
		if !x.Optional {
			n++
		}
	}
	return n
}

func appendCapped(s []string, x string) []string {
	if len(s) < 5 {
		return append(s, x)
	}
	return s
}

func c03Floors(m *Merged, tier string) []string {
	var unmet []string
	for _, c := range []string{"cases_with_skipped_fetch", "cases_with_skipped_custom_call", "cases_with_untaken_branch_effects", "skips_by_and_false", "skips_by_or_true", "skips_multilevel", "skips_from_if_branch", "cases_with_failing_fetch"} {
		if m.C(c) == 0 {
			unmet = append(unmet, c+" = 0")
		}
	}
	if m.C("two_leaf_andor_optional_fetch") < 100 {
		unmet = append(unmet, "fewer than 100 two-leaf and/or cases under FastEvaluation")
	}
	return unmet
}

func allBoundNames(tree *Node, b Binding) bool {
	ok := true
	tree.Walk(func(n *Node) {
		if n.Kind == KVar {
			if _, bound := b.Vals[n.Name]; !bound {
				ok = false
			}
		}
	})
	return ok
}
