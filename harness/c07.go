package main

// C07 — compiled expressions are immutable, re-entrant and goroutine-safe.

import (
	"fmt"
	"math/rand"
	"sync"
	"sync/atomic"
	"time"

	"github.com/onheap/eval"
)

func init() {
	register(&Prop{
		ID: "C07",
		Rule: "Pools of programs from all strata (list constants, registered operators, deep operand stacks above the 8/16 allocation classes, with and without event reporting) are compiled once and shared. " +
			"Histories: sequential call sequences and 2-16 goroutines x 100-2000 calls mixing Eval, TryEval, Dump and DumpTable with bindings that succeed, fail early, fail late and short-circuit differently, each call with its own context; " +
			"the step hook yields from per-goroutine PRNGs so that evaluations overlap mid-program. Oracles: (1) every call's result equals the result precomputed single-threaded on a separately compiled instance, " +
			"(2) the read-only program snapshot, Dump and DumpTable text are identical before and after each history, (3) the Go race detector (race phase) reports nothing involving onheap/eval frames. " +
			"A call is non-trivial when another call on the same Expr was in flight when it started; distinct = distinct (history, goroutine, call index) of such calls.",
		Assumptions: []string{
			"schedules are sampled (hook yields widen, they do not enumerate); the race detector sees only executed interleavings",
			"event consumers only count events (reading OP_EXEC.Params concurrently is C12's subject)",
		},
		NumCases:     func(tier string) int { return map[string]int{"quick": 160, "thorough": 24000}[tier] },
		Run:          func(w *W, idx int) { c07Run(w, idx, false) },
		RaceNumCases: func(tier string) int { return map[string]int{"quick": 48, "thorough": 5000}[tier] },
		RaceRun:      func(w *W, idx int) { c07Run(w, idx, true) },
		RaceProcs:    8,
		Floors: func(m *Merged, tier string) []string {
			var u []string
			if m.C("overlapping_calls") < 10000 {
				u = append(u, fmt.Sprintf("only %d overlapping calls", m.C("overlapping_calls")))
			}
			for _, c := range []string{"histories_sequential", "histories_concurrent", "snapshots_compared", "calls_eval", "calls_tryeval", "calls_dump", "calls_dumptable", "calls_failing", "programs_deep_stack", "programs_big_list_constants", "programs_event_mode", "race_histories", "list_bindings_from_refilled_buffers", "fresh_context_set_flows", "programs_self_recursive", "one_shot_eval_calls", "flood_overlapping_evaluations"} {
				if m.C(c) == 0 {
					u = append(u, c+" = 0")
				}
			}
			return u
		},
	})
}

type c07Prog struct {
	src       string
	cfg       CaseCfg
	e         *eval.Expr
	bindings  []Binding
	expect    [][2]Outcome // per binding: Eval, TryEval
	dump      string
	table     string
	tableNoEv string
	snap      string
	maxStack  int16
	events    bool
	cc        *eval.Config
	keys      map[string]eval.VariableKey
	expectNo  Outcome // TryEval in isolation with no variable available
	selfRec   bool    // uses cself (needs the harness's own fetcher)
}

func outcomeEq(a, b Outcome) bool {
	if (a.Panic == nil) != (b.Panic == nil) || (a.Err == nil) != (b.Err == nil) {
		return false
	}
	if a.Panic != nil {
		return true
	}
	if a.Err != nil {
		return a.Err == b.Err || a.Err.Error() == b.Err.Error()
	}
	if isDNE(a.V) || isDNE(b.V) {
		return isDNE(a.V) && isDNE(b.V)
	}
	return valEq(a.V, b.V)
}

// bigList: an unsorted list literal / constant with n distinct elements
func bigIntList(r *rand.Rand, n int) []int64 {
	l := make([]int64, n)
	for i := range l {
		l[i] = int64(i*7 - 300)
	}
	r.Shuffle(n, func(i, j int) { l[i], l[j] = l[j], l[i] })
	return l
}

func bigStrList(r *rand.Rand, n int) []string {
	l := make([]string, n)
	for i := range l {
		l[i] = fmt.Sprintf("s%03d", (i*37)%1000)
	}
	r.Shuffle(n, func(i, j int) { l[i], l[j] = l[j], l[i] })
	return l
}

func g0pick(r *rand.Rand, s ...string) string { return s[r.Intn(len(s))] }

func c07Tree(r *rand.Rand, k int) (*Node, string) {
	if k%23 == 11 {
		// a recursive rule: while b0 holds, the value is what the same expression gives once b0 is false
		base := Op(g0pick(r, "+", "add", "*"), TInt, Var("i0", TInt), Lit(int64(2+r.Intn(5))))
		t := If(Var("b0", TBool), Op("cself", TInt), base)
		if r.Intn(2) == 0 {
			t = Op("+", TInt, Lit(int64(1)), t, Var("i1", TInt))
		}
		return t, "self-recursive"
	}
	if k%23 == 5 || k%23 == 17 {
		// operators over a caller-supplied list: registered operators (declared stateless or not) and the built-in ones.
		// The calls bind the list from the goroutine's buffer, refilled in place with other contents of the same length.
		sum := func() *Node { return Op(g0pick(r, "csum", "ssum", "ssum"), TInt, Var("li0", TIList)) }
		var t *Node
		switch r.Intn(5) {
		case 0:
			t = Op(">", TBool, sum(), Var("i0", TInt))
		case 1:
			t = Op("+", TInt, sum(), Var("i0", TInt), sum())
		case 2:
			t = Op("or", TBool, Op("in", TBool, Var("i0", TInt), Var("li0", TIList)), Op(">", TBool, sum(), Lit(int64(5))), Var("b0", TBool))
		case 3:
			t = If(Op("overlap", TBool, Var("li0", TIList), Lit([]int64{1, 2, 3})), sum(), Op("-", TInt, sum(), Var("i0", TInt)))
		default:
			t = Op("and", TBool, Var("b0", TBool), Op("=", TBool, sum(), Op("csum", TInt, Var("li0", TIList))))
		}
		return t, "list-operators"
	}
	switch k % 9 {
	case 7, 8:
		// large unsorted list constants on either side of the scan/hash switch, against list variables
		n := []int{30, 60, 99, 100, 120, 200}[r.Intn(6)]
		var lst, other *Node
		if r.Intn(2) == 0 {
			l := bigIntList(r, n)
			lst = Lit(l)
			if r.Intn(2) == 0 {
				lst = ConstRef("KBIGI", l)
			}
			other = Var("li0", TIList)
		} else {
			l := bigStrList(r, n)
			lst = Lit(l)
			if r.Intn(2) == 0 {
				lst = ConstRef("KBIGS", l)
			}
			other = Var("ls0", TSList)
		}
		var t *Node
		switch r.Intn(5) {
		case 4:
			// membership in a caller-supplied list (the calls below bind it from reused, refilled buffers)
			if lst.Ty == TIList {
				t = Op("or", TBool, Op("in", TBool, Var("i0", TInt), other), Op("in", TBool, Lit(int64(-77)), lst))
			} else {
				t = Op("or", TBool, Op("in", TBool, Var("s0", TStr), other), Op("in", TBool, Lit("no such element"), lst))
			}
		case 0:
			t = Op("overlap", TBool, lst, other)
		case 1:
			t = Op("overlap", TBool, other, lst)
		case 2:
			t = Op("and", TBool, Var("b0", TBool), Op("overlap", TBool, lst, other))
		default:
			if lst.Ty == TIList {
				t = Op("or", TBool, Op("in", TBool, Var("i0", TInt), lst), Op("overlap", TBool, other, lst.Clone()))
			} else {
				t = Op("or", TBool, Op("in", TBool, Var("s0", TStr), lst), Op("overlap", TBool, other, lst.Clone()))
			}
		}
		return t, "big-list-constants"
	case 5:
		// deep operand stack: more than 16 pending operands
		n := 17 + r.Intn(30)
		return nary([]string{"+", "*", "add"}[r.Intn(3)], TInt, n, func(i int) *Node {
			switch r.Intn(4) {
			case 0:
				return Lit(int64(r.Intn(5)))
			case 1:
				return Op("-", TInt, Var("i0", TInt), Var("i1", TInt))
			default:
				return Var([]string{"i0", "i1", "i2"}[r.Intn(3)], TInt)
			}
		}), "deep-stack"
	case 6:
		return rightNested(r, 17+r.Intn(20), r.Intn(3)), "deep-stack"
	}
	s := &strata[k%len(strata)]
	g := s.Make(r)
	g.Budget = 250
	return g.Root(s.Dep(r)), s.Name
}

func c07Build(w *W, r *rand.Rand, k int) *c07Prog {
	tree, stratum := c07Tree(r, k)
	src := tree.Prefix()
	cfg := cfgFor(tree, OptSet(r.Intn(16)), r.Intn(2) == 0)
	if r.Intn(4) == 0 {
		cfg.Events = 1 + r.Intn(2)
	}
	shared, ok := compileVariant(w, tree, src, cfg, "shared")
	if !ok {
		return nil
	}
	// a separately compiled instance gives the isolated reference results
	iso, ok := compileVariant(w, tree, src, cfg, "isolated")
	if !ok {
		return nil
	}
	w.Inc("programs")
	w.Inc("programs_" + stratum)
	if stratum == "deep-stack" || shared.MaxStack > 16 {
		w.Inc("programs_deep_stack")
	}
	p := &c07Prog{src: src, cfg: cfg, e: shared.E, events: cfg.Events != 0, maxStack: shared.MaxStack, cc: shared.CC, keys: map[string]eval.VariableKey{}}
	for n, k := range shared.CC.VariableKeyMap {
		p.keys[n] = k
	}
	p.selfRec = stratum == "self-recursive"
	if p.selfRec {
		w.Inc("programs_self_recursive")
	}
	if p.events {
		w.Inc("programs_event_mode")
	}
	bs := genBindings(r, tree, 6, 0.1)
	if stratum == "list-operators" {
		// lists of one length and different contents: every call of a goroutine refills the same buffer
		n := 1 + r.Intn(6)
		for i := range bs {
			l := make([]int64, n)
			for j := range l {
				l[j] = int64(r.Intn(9) - 2)
			}
			bs[i].Vals["li0"] = l
		}
		w.Inc("programs_list_operators")
	}
	if stratum == "big-list-constants" {
		// list variables long enough to reach the hashing path with the constant
		for i := range bs {
			if _, ok := bs[i].Vals["li0"]; ok && i%3 != 2 {
				l := bigIntList(r, []int{10, 40, 80, 150}[r.Intn(4)])
				if i%2 == 0 {
					// a value family disjoint from the constants: a false result that leftovers of other calls could flip
					for k := range l {
						l[k] += 3
					}
				}
				bs[i].Vals["li0"] = l
				if _, ok := bs[i].Vals["i0"]; ok && r.Intn(2) == 0 {
					bs[i].Vals["i0"] = l[r.Intn(len(l))]
				}
			}
			if _, ok := bs[i].Vals["ls0"]; ok && i%3 != 2 {
				l := bigStrList(r, []int{10, 40, 80, 150}[r.Intn(4)])
				if i%2 == 0 {
					for k := range l {
						l[k] += "-other"
					}
				}
				bs[i].Vals["ls0"] = l
				if _, ok := bs[i].Vals["s0"]; ok && r.Intn(2) == 0 {
					bs[i].Vals["s0"] = l[r.Intn(len(l))]
				}
			}
		}
		w.Inc("programs_big_list_constants")
	}
	for i, b := range bs {
		if i%2 == 1 {
			av := map[string]bool{}
			for n := range b.Vals {
				av[n] = r.Intn(3) != 0
			}
			b.Avail = av
		}
		var ex [2]Outcome
		f0, f1 := fetcherFor(Binding{Vals: b.Vals}, nil), fetcherFor(b, nil)
		f0.Self, f1.Self = iso.E, iso.E
		if stratum == "self-recursive" && p.events {
			// the nested evaluation reports on the same channel: drained by a counting consumer
			ch := make(chan eval.Event, 64)
			iso.E.EventChan = ch
			done := make(chan struct{})
			go func() {
				for range ch {
				}
				close(done)
			}()
			ex[0] = guard(func() (eval.Value, error) { return iso.E.Eval(&eval.Ctx{VariableFetcher: f0}) })
			ex[1] = guard(func() (eval.Value, error) { return iso.E.TryEval(&eval.Ctx{VariableFetcher: f1}) })
			close(ch)
			<-done
		} else {
			ex[0], _ = callExpr(iso.E, CallEval, f0, nil, p.events)
			ex[1], _ = callExpr(iso.E, CallTryEval, f1, nil, p.events)
		}
		p.bindings = append(p.bindings, b)
		p.expect = append(p.expect, ex)
	}
	p.expectNo, _ = callExpr(iso.E, CallTryEval, fetcherFor(Binding{Vals: map[string]interface{}{}}, nil), nil, p.events)
	p.dump = iso.Dump
	guard(func() (eval.Value, error) { p.table = eval.DumpTable(iso.E, false); return nil, nil })
	guard(func() (eval.Value, error) { p.tableNoEv = eval.DumpTable(iso.E, true); return nil, nil })
	p.snap, _ = progSnapshot(p.e)
	return p
}

type c07Result struct {
	fails       []string
	sigs        []string
	calls       [4]int64
	failing     int64
	overlapping int64
	switches    int64
	pooled      int64 // list bindings served from a refilled buffer
	setFlows    int64 // fresh library context, TryEval, Set, Eval
	recycled    int64 // calls made with the goroutine's recycled Ctx object
}

// pooledVals returns vals with every []int64/[]string value copied into the goroutine's buffer of that name and length
// (allocated on first use, refilled in place afterwards).
func pooledVals(bufs map[string]interface{}, vals map[string]interface{}, refills *int64) map[string]interface{} {
	var out map[string]interface{}
	for k, v := range vals {
		var nv interface{}
		switch l := v.(type) {
		case []int64:
			if len(l) == 0 {
				continue
			}
			key := fmt.Sprintf("%s/%d", k, len(l))
			buf, ok := bufs[key].([]int64)
			if !ok {
				buf = make([]int64, len(l))
				bufs[key] = buf
			} else {
				*refills++
			}
			copy(buf, l)
			nv = buf
		case []string:
			if len(l) == 0 {
				continue
			}
			key := fmt.Sprintf("%s/%d", k, len(l))
			buf, ok := bufs[key].([]string)
			if !ok {
				buf = make([]string, len(l))
				bufs[key] = buf
			} else {
				*refills++
			}
			copy(buf, l)
			nv = buf
		default:
			continue
		}
		if out == nil {
			out = make(map[string]interface{}, len(vals))
			for k2, v2 := range vals {
				out[k2] = v2
			}
		}
		out[k] = nv
	}
	if out == nil {
		return vals
	}
	return out
}

// Values of caller-defined types as operands of eq/ne: a record or a fixed-size array whose interface-typed part holds
// something comparable in one call and a slice or map in the next.
type c07Rec struct {
	ID    int
	Extra interface{}
}
type c07Pair [2]interface{}

// ... and types whose interface-typed part sits one level down
type c07Outer struct {
	Name  string
	Inner c07Rec
}
type c07Box struct {
	Slots [1]interface{}
}

func dynComparable(v interface{}) (ok bool) {
	defer func() {
		if recover() != nil {
			ok = false
		}
	}()
	_ = v == v
	return true
}

// c07ForeignEq: a history of eq/ne calls over such values on long-lived programs. What a call returns depends on its own
// operands only: an error when one of them cannot be compared, else plain Go equality - whatever was compared before,
// on this program or another one. The oracle is Go's own ==, not an evaluation by the engine.
func c07ForeignEq(w *W, r *rand.Rand) {
	vals := []interface{}{
		c07Rec{1, nil}, c07Rec{1, "x"}, c07Rec{1, []int{1}}, c07Rec{2, map[string]int{"a": 1}}, c07Rec{2, int64(5)}, c07Rec{1, "x"},
		c07Pair{int64(1), "a"}, c07Pair{[]int64{1}, "a"}, c07Pair{int64(1), "a"}, c07Pair{nil, func() {}}, c07Pair{nil, nil},
		int64(7), "x", true, nil,
		c07Outer{"o", c07Rec{1, "x"}}, c07Outer{"o", c07Rec{1, []int64{1}}}, c07Outer{"o", c07Rec{1, "x"}}, c07Outer{"p", c07Rec{1, nil}},
		c07Box{[1]interface{}{int64(3)}}, c07Box{[1]interface{}{map[string]int{}}}, c07Box{[1]interface{}{int64(3)}},
	}
	type prog struct {
		src  string
		e    *eval.Expr
		cc   *eval.Config
		n    int
		isNe bool
	}
	var progs []prog
	for _, p := range []prog{{src: "(eq a b)", n: 2}, {src: "(ne a b)", n: 2, isNe: true}, {src: "(= a b c)", n: 3}, {src: "(!= a b)", n: 2, isNe: true}, {src: "(not (eq a b))", n: 2, isNe: true}} {
		cc := buildConfig(CaseCfg{Opts: OptSet(r.Intn(16)), VarNames: []string{"a", "b", "c"}}, nil)
		e, co := compileGuard(cc, p.src)
		if co.Panic != nil || co.Err != nil {
			w.Fail("foreign-eq/compile", "%s does not compile: %s", p.src, co)
			return
		}
		p.e, p.cc = e, cc
		progs = append(progs, p)
	}
	for step := 0; step < 60; step++ {
		p := progs[r.Intn(len(progs))]
		ops := make([]interface{}, 3)
		for i := range ops {
			ops[i] = vals[r.Intn(len(vals))]
		}
		if r.Intn(2) == 0 {
			ops[1] = ops[0] // equal operands are the interesting half
		}
		ops = ops[:p.n]
		wantErr := false
		want := true
		for _, o := range ops {
			if !dynComparable(o) {
				wantErr = true
			}
		}
		if !wantErr {
			for _, o := range ops[1:] {
				if o != ops[0] {
					want = false
				}
			}
			if p.isNe {
				want = !want
			}
		}
		bind := map[string]interface{}{"a": ops[0], "b": ops[1]}
		if p.n == 3 {
			bind["c"] = ops[2]
		}
		kind := CallEval
		if r.Intn(3) == 0 {
			kind = CallTryEval
		}
		o, _ := callExpr(p.e, kind, &RecFetcher{Vals: bind, Keys: p.cc.VariableKeyMap}, nil, false)
		w.Evals++
		w.Inc("foreign_eq_calls")
		switch {
		case o.Panic != nil:
			w.Fail("call-result-differs-from-isolated/foreign-eq", "%s panicked with a=%#v b=%#v: %v", p.src, ops[0], ops[1], o.Panic)
			return
		case wantErr != (o.Err != nil), !wantErr && o.V != want:
			exp := fmt.Sprint(want)
			if wantErr {
				exp = "an error (an operand cannot be compared)"
			}
			w.Fail("call-result-differs-from-isolated/foreign-eq", "step %d of a history of eq/ne calls over values of caller-defined struct and array types: %s with operands %#v gives %s, in isolation it gives %s", step, p.src, ops, o, exp)
			return
		}
	}
}

// c07LongHistory: one compiled program evaluated a great many times. A variable deep in the program is read in one call,
// then not reached for K calls (a guard short-circuits it away), then read again under another binding - K around the
// sizes of small counters (2^8, 2^15, 2^16). Every call returns what the reference gives for its own binding.
func c07LongHistory(w *W, r *rand.Rand) {
	srcs := []string{
		"(and enabled (or (= tier 1) (= tier 2)))",
		"(if enabled (+ tier tier 1) (- 0 tier))",
		"(or (not enabled) (and (> tier 0) (< tier 3) (!= tier 9)))",
	}
	src := srcs[r.Intn(len(srcs))]
	cc := buildConfig(CaseCfg{Opts: OptSet(r.Intn(16)), VarNames: []string{"enabled", "tier"}}, nil)
	e, co := compileGuard(cc, src)
	tree, perr := parseDump(src)
	if co.Panic != nil || co.Err != nil || perr != nil {
		w.Fail("long-history/compile", "%s does not compile: %s %v", src, co, perr)
		return
	}
	K := []int{65536, 255, 256, 257, 65536, 32767, 32768, 32769, 65536, 65535, 65537}[r.Intn(11)]
	for _, kind := range []CallKind{CallTryEval, CallEval} {
		if !c07LongHistoryRun(w, r, src, cc, e, tree, kind, K) {
			return
		}
	}
	w.Inc("long_histories")
	w.Max("longest_history_calls", int64(2*K+8))
}

func c07LongHistoryRun(w *W, r *rand.Rand, src string, cc *eval.Config, e *eval.Expr, tree *Node, kind CallKind, K int) bool {
	call := func(step int, vals map[string]interface{}) bool {
		f := &RecFetcher{Vals: vals, Keys: cc.VariableKeyMap}
		if kind == CallTryEval && vals["tier"] == nil {
			f.Avail = map[string]bool{"enabled": true}
		}
		o, _ := callExpr(e, kind, f, nil, false)
		w.Evals++
		env := refEnv(Binding{Vals: vals})
		var want interface{}
		var werr error
		if f.Avail != nil {
			env.Avail = f.Avail
			want, werr = env.Kleene(tree)
		} else {
			want, werr = env.Eval(tree)
		}
		got := interface{}(o.V)
		if isDNE(got) {
			got = refDNE
		}
		if o.Panic != nil || (werr == nil) != (o.Err == nil) || (werr == nil && !valEq(want, got)) {
			w.Fail("call-result-differs-from-isolated/long-history", "call %d of a long history on one program (the deep variable was last read %d calls earlier): %s with %v gives %s, the reference gives %s", step, K, src, vals, o, valText(want))
			return false
		}
		return true
	}
	for cycle := 0; cycle < 2; cycle++ {
		tierA, tierB := int64(1+r.Intn(2)), int64(5+r.Intn(3))
		if cycle == 1 {
			tierA, tierB = tierB, tierA
		}
		first := map[string]interface{}{"enabled": true, "tier": tierA}
		if cycle == 1 && kind == CallTryEval {
			// ... or the deep variable was unavailable when it was last looked up
			first = map[string]interface{}{"enabled": true, "tier": nil}
		}
		if !call(0, first) {
			return false
		}
		for i := 1; i < K; i++ {
			if !call(i, map[string]interface{}{"enabled": false, "tier": int64(9)}) {
				return false
			}
		}
		for d := 0; d < 3; d++ {
			if !call(K+d, map[string]interface{}{"enabled": true, "tier": tierB}) {
				return false
			}
		}
	}
	return true
}

// c07AppendingOperator: a registered operator that returns its list argument with one more element appended (Go's
// append on the value it was handed). The list constants of the program are not its to grow: every evaluation gives the
// same result, and Dump shows the same constants afterwards.
func c07AppendingOperator(w *W, r *rand.Rand) {
	push := func(_ *eval.Ctx, p []eval.Value) (eval.Value, error) {
		switch l := p[0].(type) {
		case []int64:
			return append(l, p[1].(int64)), nil
		case []string:
			return append(l, p[1].(string)), nil
		}
		return nil, ErrCustom
	}
	srcs := []string{
		"(and (in i0 (list_push (1 2) 5)) (in i1 (7 8)))",
		"(or (in i1 (7 8 9)) (overlap (list_push (1 2 3) i0) (4 5)) (in i1 (6 7)))",
		`(and (in s0 (list_push ("a" "b") "c")) (in s0 ("d" "e")))`,
		"(if (in i0 (list_push (list_push (1) 2) 3)) (in i1 (10 11)) (in i1 (12 13)))",
	}
	src := srcs[r.Intn(len(srcs))]
	cc := buildConfig(CaseCfg{Opts: OptSet(r.Intn(16)), VarNames: []string{"i0", "i1", "s0"}}, nil)
	cc.OperatorMap["list_push"] = push
	e, co := compileGuard(cc, src)
	if co.Panic != nil || co.Err != nil {
		w.Fail("appending-operator/compile", "%s does not compile: %s", src, co)
		return
	}
	before, _ := dumpGuard(e)
	var first []Outcome
	binds := []map[string]interface{}{
		{"i0": int64(5), "i1": int64(7), "s0": "c"}, {"i0": int64(3), "i1": int64(5), "s0": "d"}, {"i0": int64(1), "i1": int64(12), "s0": "e"}, {"i0": int64(2), "i1": int64(8), "s0": "a"},
	}
	for round := 0; round < 3; round++ {
		for i, vals := range binds {
			kind := []CallKind{CallEval, CallTryEval}[(round+i)%2]
			o, _ := callExpr(e, kind, &RecFetcher{Vals: vals, Keys: cc.VariableKeyMap}, nil, false)
			w.Evals++
			w.Inc("appending_operator_calls")
			if round == 0 {
				first = append(first, o)
			} else if !outcomeEq(first[i], o) {
				w.Fail("call-result-differs-from-isolated/appending-operator", "%s with %v gives %s in round %d and gave %s in the first round (a registered operator appends to the list it is handed)", src, vals, o, round+1, first[i])
				return
			}
		}
	}
	after, _ := dumpGuard(e)
	if before != after {
		w.Fail("program-modified-by-evaluation/appending-operator", "Dump differs after evaluations in which a registered operator appended to a list it was handed\nbefore: %s\nafter:  %s", oneLine(before), oneLine(after))
	}
}

func c07Run(w *W, idx int, race bool) {
	r := w.Rand(idx)
	if !race && idx%8 == 3 {
		c07ForeignEq(w, r)
	}
	if !race && idx%16 == 5 {
		c07LongHistory(w, r)
	}
	if !race && idx%8 == 6 {
		c07AppendingOperator(w, r)
	}
	concurrent := race || idx%4 != 0
	var pool []*c07Prog
	for k := 0; k < 4; k++ {
		if p := c07Build(w, r, idx*4+k); p != nil {
			pool = append(pool, p)
		}
	}
	if len(pool) == 0 {
		return
	}
	goroutines := 1
	calls := 600
	if concurrent {
		goroutines = []int{2, 3, 4, 8, 16}[r.Intn(5)]
		calls = []int{100, 300, 1000, 2000}[r.Intn(4)]
		if race {
			calls = []int{100, 200, 400}[r.Intn(3)]
		}
		w.Inc("histories_concurrent")
	} else {
		w.Inc("histories_sequential")
	}
	if race {
		w.Inc("race_histories")
	}
	yield := uint32(0)
	if concurrent {
		yield = []uint32{1, 3, 7}[r.Intn(3)]
	}

	// event consumers: count only
	var evWG sync.WaitGroup
	var evCount int64
	var chans []chan eval.Event
	for _, p := range pool {
		if p.events {
			ch := make(chan eval.Event, 16)
			p.e.EventChan = ch
			chans = append(chans, ch)
			evWG.Add(1)
			go func() {
				defer evWG.Done()
				for range ch {
					atomic.AddInt64(&evCount, 1)
				}
			}()
		}
	}

	var active int64
	results := make([]*c07Result, goroutines)
	var wg sync.WaitGroup
	seeds := make([]int64, goroutines)
	for g := range seeds {
		seeds[g] = r.Int63()
	}
	for g := 0; g < goroutines; g++ {
		res := &c07Result{}
		results[g] = res
		wg.Add(1)
		go func(g int) {
			defer wg.Done()
			gr := rand.New(rand.NewSource(seeds[g]))
			tr := NewTracer()
			tr.YieldMask = yield
			tr.rng = uint32(gr.Int31())
			bufs := map[string]interface{}{} // this goroutine's list buffers, one per (variable, length)
			reuse := &eval.Ctx{}             // this goroutine's recycled context object
			for c := 0; c < calls; c++ {
				p := pool[gr.Intn(len(pool))]
				bi := gr.Intn(len(p.bindings))
				b := p.bindings[bi]
				if gr.Intn(2) == 0 {
					// the caller binds list variables from its own reused buffers, refilled in place for this call
					b.Vals = pooledVals(bufs, b.Vals, &res.pooled)
				}
				kind := gr.Intn(11)
				if atomic.AddInt64(&active, 1) > 1 {
					res.overlapping++
				}
				switch {
				case kind == 10 && p.cfg.Undefined && !p.selfRec:
					// (only where NewCtxFromVars gives a map-backed context: a slice-backed one reports every registered
					// key as cached and cannot express "not available")
					// the remote-call flow with the library's own context: a fresh context without values, TryEval,
					// then the values are stored with Set and Eval runs on the same context. Every such context is
					// the caller's own: what one call stores must not be visible to the next one.
					ctx := eval.NewCtxFromVars(p.cc, nil)
					o := guard(func() (eval.Value, error) { return p.e.TryEval(ctx) })
					res.calls[1]++
					res.setFlows++
					if !outcomeEq(o, p.expectNo) {
						res.fails = append(res.fails, fmt.Sprintf("TryEval on a fresh NewCtxFromVars(cfg, nil) context returned %s, in isolation it returns %s (goroutine %d, call %d)\n%s", o, p.expectNo, g, c, describeCase(p.src, p.cfg, Binding{})))
						res.sigs = append(res.sigs, "call-result-differs-from-isolated/fresh-context-TryEval")
					}
					okSet := true
					for n, v := range b.Vals {
						k, reg := p.keys[n]
						if !reg {
							if !p.cfg.Undefined {
								continue // a name the config does not know (a shadowed constant's twin)
							}
							k = eval.UndefinedVarKey
						}
						if err := ctx.Set(k, n, v); err != nil {
							okSet = false
						}
					}
					if okSet {
						o2 := guard(func() (eval.Value, error) { return p.e.Eval(ctx) })
						res.calls[0]++
						want := p.expect[bi][0]
						if want.Err == ErrUnbound {
							// a variable the binding leaves out: the library's fetcher reports it in its own words
							if o2.Err == nil {
								res.fails = append(res.fails, fmt.Sprintf("Eval after Set on a NewCtxFromVars context returned %s although the binding leaves a needed variable out (goroutine %d, call %d)\n%s", o2, g, c, describeCase(p.src, p.cfg, b)))
								res.sigs = append(res.sigs, "call-result-differs-from-isolated/set-then-Eval")
							}
						} else if !outcomeEq(o2, want) {
							res.fails = append(res.fails, fmt.Sprintf("Eval after Set on a NewCtxFromVars context returned %s, in isolation it returns %s (goroutine %d, call %d)\n%s", o2, p.expect[bi][0], g, c, describeCase(p.src, p.cfg, b)))
							res.sigs = append(res.sigs, "call-result-differs-from-isolated/set-then-Eval")
						}
					}
				case kind < 5:
					tr.MaxStack = p.maxStack
					tr.Begin()
					fe := fetcherFor(Binding{Vals: b.Vals}, nil)
					fe.Self = p.e
					ctx := &eval.Ctx{VariableFetcher: fe, Ctx: ctxWithTracer(tr)}
					if gr.Intn(2) == 0 {
						// the caller recycles one Ctx object for all its calls and only replaces what it holds
						reuse.VariableFetcher, reuse.Ctx = ctx.VariableFetcher, ctx.Ctx
						ctx = reuse
						res.recycled++
					}
					o := guard(func() (eval.Value, error) { return p.e.Eval(ctx) })
					res.calls[0]++
					if o.Err != nil {
						res.failing++
					}
					if !outcomeEq(o, p.expect[bi][0]) {
						res.fails = append(res.fails, fmt.Sprintf("Eval returned %s, in isolation it returns %s (goroutine %d, call %d)\n%s", o, p.expect[bi][0], g, c, describeCase(p.src, p.cfg, b)))
						res.sigs = append(res.sigs, "call-result-differs-from-isolated/Eval")
					}
					if tr.Bad != "" {
						res.fails = append(res.fails, tr.Bad+"\n"+describeCase(p.src, p.cfg, b))
						res.sigs = append(res.sigs, "step-monitor/"+stepSig(tr.Bad))
						tr.Bad = ""
					}
				case kind < 8:
					tr.MaxStack = p.maxStack
					tr.Begin()
					ft := fetcherFor(b, nil)
					ft.Self = p.e
					ctx := &eval.Ctx{VariableFetcher: ft, Ctx: ctxWithTracer(tr)}
					if gr.Intn(2) == 0 {
						reuse.VariableFetcher, reuse.Ctx = ctx.VariableFetcher, ctx.Ctx
						ctx = reuse
						res.recycled++
					}
					o := guard(func() (eval.Value, error) { return p.e.TryEval(ctx) })
					res.calls[1]++
					if !outcomeEq(o, p.expect[bi][1]) {
						res.fails = append(res.fails, fmt.Sprintf("TryEval returned %s, in isolation it returns %s (goroutine %d, call %d)\n%s", o, p.expect[bi][1], g, c, describeCase(p.src, p.cfg, b)))
						res.sigs = append(res.sigs, "call-result-differs-from-isolated/TryEval")
					}
					if tr.Bad != "" {
						res.fails = append(res.fails, tr.Bad+"\n"+describeCase(p.src, p.cfg, b))
						res.sigs = append(res.sigs, "step-monitor/"+stepSig(tr.Bad))
						tr.Bad = ""
					}
				case kind < 9:
					d, o := dumpGuard(p.e)
					res.calls[2]++
					if o.Panic != nil || d != p.dump {
						res.fails = append(res.fails, fmt.Sprintf("Dump returned a different text than in isolation (panic %v)\nsource: %s", o.Panic, p.src))
						res.sigs = append(res.sigs, "call-result-differs-from-isolated/Dump")
					}
				default:
					var t string
					skip := gr.Intn(2) == 0
					want := p.table
					if skip {
						want = p.tableNoEv
					}
					o := guard(func() (eval.Value, error) { t = eval.DumpTable(p.e, skip); return nil, nil })
					res.calls[3]++
					if o.Panic != nil || t != want {
						res.fails = append(res.fails, fmt.Sprintf("DumpTable returned a different text than in isolation (panic %v)\nsource: %s", o.Panic, p.src))
						res.sigs = append(res.sigs, "call-result-differs-from-isolated/DumpTable")
					}
				}
				atomic.AddInt64(&active, -1)
			}
			res.switches = tr.Switches
		}(g)
	}
	wg.Wait()
	for _, ch := range chans {
		close(ch)
	}
	evWG.Wait()
	w.Count("events_counted", evCount)
	for g, res := range results {
		w.Evals += res.calls[0] + res.calls[1] + res.calls[2] + res.calls[3]
		w.Count("calls_eval", res.calls[0])
		w.Count("calls_tryeval", res.calls[1])
		w.Count("calls_dump", res.calls[2])
		w.Count("calls_dumptable", res.calls[3])
		w.Count("calls_failing", res.failing)
		w.Count("overlapping_calls", res.overlapping)
		w.Count("hook_context_switches", res.switches)
		w.Count("list_bindings_from_refilled_buffers", res.pooled)
		w.Count("fresh_context_set_flows", res.setFlows)
		w.Count("calls_with_recycled_ctx_object", res.recycled)
		for i := int64(0); i < res.overlapping && i < 200; i++ {
			w.Nontrivial(fmt.Sprint(w.Phase, w.Case), fmt.Sprint(g), fmt.Sprint(i))
		}
		for i, f := range res.fails {
			w.Fail(res.sigs[i], "%s", f)
		}
	}
	w.Max("max_goroutines", int64(goroutines))
	// immutability witness
	for _, p := range pool {
		snap, _ := progSnapshot(p.e)
		d, _ := dumpGuard(p.e)
		var t string
		guard(func() (eval.Value, error) { t = eval.DumpTable(p.e, false); return nil, nil })
		w.Inc("snapshots_compared")
		if snap != p.snap || d != p.dump || t != p.table {
			w.Fail("program-modified-by-evaluation", "the compiled program differs after the history (snapshot %v, dump %v, table %v)\nsource: %s\nconfig: %s", snap != p.snap, d != p.dump, t != p.table, p.src, p.cfg)
		}
	}
	c07OneShot(w, r)
	if !c07Flooded && !race {
		c07Flooded = true
		c07Flood(w)
	}
	if idx%16 == 0 {
		w.Sample(map[bool]string{true: "concurrent", false: "sequential"}[concurrent], fmt.Sprintf("%d goroutines x %d calls over %d shared programs, e.g. %s", goroutines, calls, len(pool), firstN(pool[0].src, 200)))
	}
}

// c07OneShot: the option-less helper eval.Eval(src, vals) takes its variables AND its operators from vals. Calls with the
// same source and the same names but other operator functions and other values are independent of each other.
func c07OneShot(w *W, r *rand.Rand) {
	srcs := []string{"(over amount)", "(and flag (over amount))", "(if (over amount) (+ amount 1) (scale amount))", "(= (scale amount) 10)"}
	src := srcs[r.Intn(len(srcs))]
	for round := 0; round < 4; round++ {
		limit := int64(r.Intn(100))
		factor := int64(1 + r.Intn(5))
		amount := int64(r.Intn(100))
		flag := r.Intn(2) == 0
		vals := map[string]interface{}{
			"amount": amount, "flag": flag,
			"over": func(_ *eval.Ctx, p []eval.Value) (eval.Value, error) {
				return p[0].(int64) > limit, nil
			},
			"scale": eval.Operator(func(_ *eval.Ctx, p []eval.Value) (eval.Value, error) {
				return p[0].(int64) * factor, nil
			}),
		}
		var want interface{}
		switch src {
		case srcs[0]:
			want = amount > limit
		case srcs[1]:
			want = flag && amount > limit
		case srcs[2]:
			if amount > limit {
				want = amount + 1
			} else {
				want = amount * factor
			}
		default:
			want = amount*factor == 10
		}
		o := guard(func() (eval.Value, error) { return eval.Eval(src, vals) })
		w.Evals++
		w.Inc("one_shot_eval_calls")
		if o.Panic != nil || o.Err != nil || !valEq(o.V, want) {
			w.Fail("call-result-differs-from-isolated/one-shot-eval", "eval.Eval(%q, vals) = %s, expected %s (call %d with this source in a row; amount=%d flag=%v, this call's operators: over = amount > %d, scale = amount * %d)", src, o, valText(want), round+1, amount, flag, limit, factor)
			return
		}
	}
}

// c07Flood: "any number of goroutines at once": 1500 goroutines, each with its own context, are inside Eval/TryEval of
// one Expr at the same moment (an operator that blocks until all of them have arrived, like a slow remote call); every
// call returns what it returns alone.
var c07Flooded bool

func c07Flood(w *W) {
	const n = 1500
	var arrived int64
	gate := make(chan struct{})
	cc := eval.NewConfig(eval.Optimizations(false))
	cc.VariableKeyMap["x"] = 1
	cc.OperatorMap["cgate"] = func(_ *eval.Ctx, p []eval.Value) (eval.Value, error) {
		if atomic.AddInt64(&arrived, 1) == n {
			close(gate)
		}
		select {
		case <-gate:
		case <-time.After(20 * time.Second):
		}
		return p[0], nil
	}
	e, co := compileGuard(cc, "(+ (cgate x) 1)")
	if co.Panic != nil || co.Err != nil {
		w.Fail("flood/compile", "Compile gave %s", co)
		return
	}
	outs := make([]Outcome, n)
	var wg sync.WaitGroup
	for g := 0; g < n; g++ {
		wg.Add(1)
		go func(g int) {
			defer wg.Done()
			ctx := eval.NewCtxFromVars(cc, map[string]interface{}{"x": int64(g)})
			outs[g] = guard(func() (eval.Value, error) {
				if g%2 == 0 {
					return e.Eval(ctx)
				}
				return e.TryEval(ctx)
			})
		}(g)
	}
	wg.Wait()
	w.Evals += n
	w.Count("flood_overlapping_evaluations", atomic.LoadInt64(&arrived))
	if atomic.LoadInt64(&arrived) < n {
		// not every goroutine reached the operator: the calls that did not are judged below all the same
		w.Inc("flood_incomplete")
	}
	bad := 0
	first := ""
	for g, o := range outs {
		if o.Panic != nil || o.Err != nil || !valEq(o.V, int64(g+1)) {
			bad++
			if first == "" {
				first = fmt.Sprintf("call %d returned %s, alone it returns %d", g, o, g+1)
			}
		}
	}
	if bad > 0 {
		w.Fail("call-result-differs-from-isolated/flood", "%d of %d calls that were inside Eval/TryEval of one Expr at the same time did not return what they return alone; %s", bad, n, first)
	}
}
