//go:build verif

package main

import (
	"fmt"
	"hash/fnv"

	"github.com/onheap/eval"
)

const hooksCompiled = true

func installHooks() { eval.VerifStepHook = stepHook }

// progSnapshot: canonical text of the flat program (immutability witness) and
// its recorded maximum stack size.
func progSnapshot(e *eval.Expr) (string, int16) {
	p := eval.VerifProgram(e)
	h := fnv.New64a()
	fmt.Fprintf(h, "max=%d;", p.MaxStackSize)
	for i, n := range p.Nodes {
		fmt.Fprintf(h, "%d:%d,%d,%d,%d,%d,%T:%v,%v,%d;", i, n.Flag, n.ChildCnt, n.ScIdx, n.OsTop, n.VarKey, n.Value, n.Value, n.HasOp, n.Parent)
	}
	return fmt.Sprintf("%d/%x", len(p.Nodes), h.Sum64()), p.MaxStackSize
}

// progShape: hash of node types, flags and jump targets only (coverage metric).
func progShape(e *eval.Expr) uint64 {
	p := eval.VerifProgram(e)
	h := fnv.New64a()
	for _, n := range p.Nodes {
		fmt.Fprintf(h, "%d,%d,%d,%d;", n.Flag, n.ChildCnt, n.ScIdx, n.OsTop)
	}
	return h.Sum64()
}

func progSize(e *eval.Expr) int { return len(eval.VerifProgram(e).Nodes) }
