package main

// Monitors: recording fetcher, recording custom operators, event collector,
// step tracer (fed by the verif hook when it is compiled in).

import (
	"context"
	"fmt"
	"runtime"
	"strings"
	"sync"
	"sync/atomic"

	"github.com/onheap/eval"
)

// Recorder collects the observable effects of one engine call (or of one
// Compile when used as the config-level recorder).
type Recorder struct {
	Effects      []Eff
	CompileCalls int // custom operator invocations with ctx == nil
	RunCalls     int
}

func (r *Recorder) Reset() { r.Effects = r.Effects[:0]; r.CompileCalls = 0; r.RunCalls = 0 }

// RecFetcher is a truthful VariableFetcher that logs every Get.
type RecFetcher struct {
	Vals  map[string]interface{}
	Avail map[string]bool // nil: every bound name is available
	Rec   *Recorder
	// KeyCheck: when non-nil, Get verifies that the (varKey,strKey) pair is the registered one.
	Keys     map[string]eval.VariableKey
	KeyError string
	Cachedq  int
	// HasDefault: names that are not in Vals are bound to Default (hostile-binding workloads)
	HasDefault bool
	Default    interface{}
	AvailHash  bool // availability decided by a hash of the name (for names the harness does not know)
	// MarkerDNE: an unavailable bound name is reported as cached and its value is the DNE marker (the way a value map
	// given to NewCtxFromVars marks a variable as unknown) instead of being reported as not cached.
	MarkerDNE bool
	// FailCached: every name counts as cached; a name without a value fails when it is read (a cache entry that cannot be
	// decoded, a store that lost a key): TryEval then fails where Eval fails
	FailCached bool
	// Self: the compiled expression this fetcher is used with (for cself, the operator that evaluates the expression it
	// occurs in once more, with its own context)
	Self *eval.Expr
}

func (f *RecFetcher) Get(k eval.VariableKey, s string) (eval.Value, error) {
	if f.Rec != nil {
		f.Rec.Effects = append(f.Rec.Effects, Eff{Get: true, Name: s})
	}
	if f.Keys != nil {
		if want, ok := f.Keys[s]; ok && want != k && f.KeyError == "" {
			f.KeyError = fmt.Sprintf("Get(%d,%q): registered key is %d", k, s, want)
		}
	}
	v, ok := f.Vals[s]
	if !ok && f.HasDefault {
		return f.Default, nil
	}
	if ok && f.MarkerDNE && f.Avail != nil && !f.Avail[s] {
		return eval.DNE, nil
	}
	if !ok || (f.Avail != nil && !f.Avail[s]) {
		return nil, ErrUnbound
	}
	return v, nil
}

func (f *RecFetcher) Set(k eval.VariableKey, s string, v eval.Value) error { return nil }

func (f *RecFetcher) Cached(k eval.VariableKey, s string) bool {
	f.Cachedq++
	if f.Keys != nil {
		if want, ok := f.Keys[s]; ok && want != k && f.KeyError == "" {
			f.KeyError = fmt.Sprintf("Cached(%d,%q): registered key is %d", k, s, want)
		}
	}
	if f.AvailHash {
		return hashStr(s)%3 != 0
	}
	if f.FailCached {
		return true
	}
	_, ok := f.Vals[s]
	if f.Avail != nil {
		return ok && (f.Avail[s] || f.MarkerDNE)
	}
	return ok
}

func toIfaces(p []eval.Value) []interface{} {
	r := make([]interface{}, len(p))
	for i, v := range p {
		r[i] = copyVal(v)
	}
	return r
}

func copyVal(v interface{}) interface{} {
	switch x := v.(type) {
	case []int64:
		return append([]int64{}, x...)
	case []string:
		return append([]string{}, x...)
	case []interface{}:
		return append([]interface{}{}, x...)
	case []eval.Value: // a tuple built by ctup: the engine's own argument slice
		c := make([]interface{}, len(x))
		for i, e := range x {
			c[i] = e
		}
		return c
	}
	return v
}

// wrapCustom turns a harness CustomOp into an engine Operator that records its
// invocations. cfgRec receives invocations that carry no per-call recorder
// (in particular compile-time invocations with a nil ctx).
func wrapCustom(op *CustomOp, cfgRec *Recorder) eval.Operator {
	return func(ctx *eval.Ctx, params []eval.Value) (eval.Value, error) {
		args := toIfaces(params)
		atCall := argsText(args)
		var res interface{}
		var err error
		if op.CtxFn != nil && ctx != nil {
			res, err = op.CtxFn(ctx, args)
			// An operator's arguments are its own until it returns - also while it evaluates other expressions on the
			// context it was handed. (The copy in args shields the operator's logic; the slice the engine handed over is
			// compared here with what it held at call time.)
			if err == nil && len(params) == len(args) {
				for i := range args {
					if !sameValue(params[i], args[i]) {
						res, err = nil, fmt.Errorf("harness: the argument slice handed to %s changed while the operator was running (argument %d was %s, is %s)", op.Name, i, valTextAny(args[i]), valTextAny(params[i]))
						break
					}
				}
			}
		} else {
			res, err = op.Fn(args)
		}
		if op.MutatesArgs {
			for i := range args { // the operator worked on the slice the engine handed it
				params[i] = args[i]
			}
		}
		if op.ReturnsArgs && err == nil {
			res = params // ... and keeps it as its result
		}
		// compile-time invocations (nil ctx) go to the config-level recorder; run-time
		// invocations only to the per-call recorder of their own context (never to shared state)
		var rec *Recorder
		if ctx == nil {
			rec = cfgRec
		} else if rf, ok := ctx.VariableFetcher.(*RecFetcher); ok {
			rec = rf.Rec
		}
		if rec != nil {
			if ctx == nil {
				rec.CompileCalls++
			} else {
				rec.RunCalls++
			}
			r := "ERR"
			if err == nil {
				r = valText(res)
			}
			rec.Effects = append(rec.Effects, Eff{Name: op.Name, Args: atCall, Res: r})
		}
		return res, err
	}
}

// ---------------------------------------------------------------------------
// step tracer

type Tracer struct {
	MaxStack   int16 // 0: unknown
	lastPC     int32
	chainLast  int32 // last target of the current jump chain (-2: no chain)
	chainSteps int
	Steps      int64
	Jumps      int64
	Peak       int16
	Bad        string     // first violated assertion
	expr       *eval.Expr // the program being followed (set by the first step after Begin); steps of other programs run on
	// the same context (an operator evaluating a nested expression) are not this tracer's
	Nested int64

	YieldMask uint32 // yield when rng&mask == 0 (0 = never)
	rng       uint32
	Switches  int64
}

func NewTracer() *Tracer { return &Tracer{lastPC: -1, chainLast: -2} }

func (t *Tracer) Begin() { t.lastPC = -1; t.chainLast = -2; t.expr = nil }

// stepAbort is the panic value the step monitor uses to abandon an evaluation whose program position went backwards.
type stepAbort struct{ why string }

func (s stepAbort) String() string { return "step monitor: " + s.why }

type tracerCtx struct {
	context.Context
	t *Tracer
}

func ctxWithTracer(t *Tracer) context.Context {
	return &tracerCtx{Context: context.Background(), t: t}
}

var (
	hookLive       int32 // set once a step has been observed
	globalStepSeq  int64
	globalHookCall int64
)

func stepHook(ctx *eval.Ctx, e *eval.Expr, kind uint8, pc int16, osTop int16, osLen int) {
	if atomic.LoadInt32(&hookLive) == 0 {
		atomic.StoreInt32(&hookLive, 1)
	}
	if ctx == nil {
		return
	}
	tc, ok := ctx.Ctx.(*tracerCtx)
	if !ok || tc.t == nil {
		return
	}
	t := tc.t
	if t.expr == nil {
		t.expr = e
	} else if t.expr != e {
		t.Nested++
		return
	}
	if kind&4 != 0 { // a short-circuit jump (Eval) / climb to the parent (TryEval)
		if pc == -1 {
			return
		}
		t.Jumps++
		if kind&2 != 0 {
			// TryEval climbs through the parent table; an if node precedes its branches, so a climb may legitimately
			// go backwards. A chain can never be longer than the program (<= 32767 nodes): more steps mean a cycle.
			t.chainSteps++
			if t.chainSteps > 40000 {
				if t.Bad == "" {
					t.Bad = fmt.Sprintf("parent-climbing chain longer than any program (cycle) at position %d", t.lastPC)
				}
				panic(stepAbort{t.Bad})
			}
			return
		}
		// Eval: jump targets strictly increase within one chain and lie ahead of the current position
		if (t.chainLast != -2 && int32(pc) <= t.chainLast) || int32(pc) <= t.lastPC {
			if t.Bad == "" {
				t.Bad = fmt.Sprintf("short-circuit jump chain does not move forward: target %d after %d (position %d)", pc, t.chainLast, t.lastPC)
			}
			panic(stepAbort{t.Bad})
		}
		t.chainLast = int32(pc)
		return
	}
	if kind&1 == 0 { // top of loop
		t.Steps++
		t.chainLast = -2
		t.chainSteps = 0
		if int32(pc) <= t.lastPC {
			if t.Bad == "" {
				t.Bad = fmt.Sprintf("program position not strictly increasing: %d after %d", pc, t.lastPC)
			}
			// a backward jump may never terminate: abandon this evaluation (recovered by guard)
			panic(stepAbort{t.Bad})
		} else if int32(pc)-t.lastPC > 1 {
			t.Jumps++
		}
		t.lastPC = int32(pc)
		if osTop < -1 || int(osTop) >= osLen {
			if t.Bad == "" {
				t.Bad = fmt.Sprintf("stack pointer %d outside allocated stack of %d at position %d", osTop, osLen, pc)
			}
		}
		if t.YieldMask != 0 {
			t.rng = t.rng*1664525 + 1013904223
			if (t.rng>>16)&t.YieldMask == 0 {
				t.Switches++
				runtime.Gosched()
			}
		}
	} else { // after push
		if osTop > t.Peak {
			t.Peak = osTop
		}
		if t.MaxStack > 0 && osTop+1 > t.MaxStack && t.Bad == "" {
			t.Bad = fmt.Sprintf("operand stack use %d exceeds recorded maximum %d at position %d", osTop+1, t.MaxStack, pc)
		}
		if int(osTop) >= osLen && t.Bad == "" {
			t.Bad = fmt.Sprintf("push at %d beyond allocated stack of %d", osTop, osLen)
		}
	}
}

// ---------------------------------------------------------------------------
// event collection

type EvRec struct {
	Type   eval.EventType
	Loop   eval.LoopEventData
	Op     eval.OpEventData
	Stack  []interface{} // deep copy at receipt
	Params []interface{} // deep copy at receipt
	Raw    eval.Event    // as received (aliases whatever the engine sent)
}

func snapshotEvent(ev eval.Event) EvRec {
	r := EvRec{Type: ev.EventType, Raw: ev}
	for _, v := range ev.Stack {
		r.Stack = append(r.Stack, copyVal(v))
	}
	switch d := ev.Data.(type) {
	case eval.LoopEventData:
		r.Loop = d
	case eval.OpEventData:
		r.Op = d
		for _, v := range d.Params {
			r.Params = append(r.Params, copyVal(v))
		}
	}
	return r
}

// collectEvents runs f while draining e.EventChan in a consumer goroutine
// (synchronous unbuffered consumer that snapshots on receipt).
func collectEvents(e *eval.Expr, buffered int, f func()) []EvRec {
	ch := make(chan eval.Event, buffered)
	e.EventChan = ch
	var out []EvRec
	var wg sync.WaitGroup
	wg.Add(1)
	go func() {
		defer wg.Done()
		for ev := range ch {
			out = append(out, snapshotEvent(ev))
		}
	}()
	func() {
		defer close(ch)
		f()
	}()
	wg.Wait()
	return out
}

// ---------------------------------------------------------------------------
// calling the engine safely

type Outcome struct {
	V     interface{}
	Err   error
	Panic interface{}
	Stack string
}

func (o Outcome) String() string {
	switch {
	case o.Panic != nil:
		return fmt.Sprintf("PANIC(%v)", o.Panic)
	case o.Err != nil:
		return "error(" + o.Err.Error() + ")"
	}
	return valText(o.V)
}

func guard(f func() (eval.Value, error)) (o Outcome) {
	defer func() {
		if p := recover(); p != nil {
			o.Panic = p
			buf := make([]byte, 1<<14)
			buf = buf[:runtime.Stack(buf, false)]
			o.Stack = string(buf)
		}
	}()
	v, err := f()
	return Outcome{V: v, Err: err}
}

// panicSite: innermost github.com/onheap/eval frame of a captured stack.
func panicSite(stack string) string {
	lines := strings.Split(stack, "\n")
	for _, l := range lines {
		l = strings.TrimSpace(l)
		if strings.HasPrefix(l, "github.com/onheap/eval.") {
			if i := strings.LastIndex(l, "("); i > 0 {
				l = l[:i]
			}
			return strings.TrimPrefix(l, "github.com/onheap/eval.")
		}
	}
	return "?"
}

func normPanic(p interface{}) string {
	s := fmt.Sprint(p)
	// strip numbers so that one root cause gives one signature
	var sb strings.Builder
	for _, c := range s {
		if c >= '0' && c <= '9' {
			continue
		}
		sb.WriteRune(c)
	}
	r := sb.String()
	if len(r) > 80 {
		r = r[:80]
	}
	return r
}

// stepSig: signature of a step-monitor assertion (numbers stripped).
func stepSig(bad string) string {
	return strings.TrimSpace(normPanic(strings.SplitN(bad, ":", 2)[0]))
}
