package main

// Small-scope enumerator: every boolean-core tree with a bounded number of
// internal nodes, every labelling of its leaf slots, every assignment.

import "fmt"

type shapeKind int

const (
	skSlot shapeKind = iota
	skNot
	skAnd2
	skAnd3
	skOr2
	skOr3
	skIf
)

var shapeArity = map[shapeKind]int{skNot: 1, skAnd2: 2, skAnd3: 3, skOr2: 2, skOr3: 3, skIf: 3}
var internalKinds = []shapeKind{skNot, skAnd2, skAnd3, skOr2, skOr3, skIf}

type Shape struct {
	K  shapeKind
	Ch []*Shape
}

func (s *Shape) slots() int {
	if s.K == skSlot {
		return 1
	}
	n := 0
	for _, c := range s.Ch {
		n += c.slots()
	}
	return n
}

// shapesExact returns all shapes with exactly k internal nodes.
var shapeMemo = map[int][]*Shape{}

func shapesExact(k int) []*Shape {
	if r, ok := shapeMemo[k]; ok {
		return r
	}
	var res []*Shape
	if k == 0 {
		res = []*Shape{{K: skSlot}}
	} else {
		for _, kind := range internalKinds {
			ar := shapeArity[kind]
			// distribute k-1 internal nodes over ar children
			var rec func(pos, left int, acc []*Shape)
			rec = func(pos, left int, acc []*Shape) {
				if pos == ar-1 {
					for _, c := range shapesExact(left) {
						ch := append(append([]*Shape{}, acc...), c)
						res = append(res, &Shape{K: kind, Ch: ch})
					}
					return
				}
				for take := 0; take <= left; take++ {
					for _, c := range shapesExact(take) {
						rec(pos+1, left-take, append(append([]*Shape{}, acc...), c))
					}
				}
			}
			rec(0, k-1, nil)
		}
	}
	shapeMemo[k] = res
	return res
}

func shapesUpTo(k int) []*Shape {
	var r []*Shape
	for i := 1; i <= k; i++ {
		r = append(r, shapesExact(i)...)
	}
	return r
}

// leaf labels
const (
	lbTrue = iota
	lbFalse
	lbVar    // fresh boolean variable
	lbCmpVar // (> iN 0) over a fresh integer variable: a two-leaf operator
	lbCmpT   // (> 1 0): constant two-leaf operator
	numLabels
)

// build instantiates the shape with the labelling (one label per slot, in order).
func (s *Shape) build(labels []int) (*Node, []string) {
	pos := 0
	nb, ni := 0, 0
	var vars []string
	var rec func(*Shape) *Node
	rec = func(x *Shape) *Node {
		if x.K == skSlot {
			l := labels[pos]
			pos++
			switch l {
			case lbTrue:
				return Lit(true)
			case lbFalse:
				return Lit(false)
			case lbVar:
				n := fmt.Sprintf("b%d", nb)
				nb++
				vars = append(vars, n)
				return Var(n, TBool)
			case lbCmpVar:
				n := fmt.Sprintf("i%d", ni)
				ni++
				vars = append(vars, n)
				return Op(">", TBool, Var(n, TInt), Lit(int64(0)))
			default:
				return Op(">", TBool, Lit(int64(1)), Lit(int64(0)))
			}
		}
		ch := make([]*Node, len(x.Ch))
		for i, c := range x.Ch {
			ch[i] = rec(c)
		}
		switch x.K {
		case skNot:
			return Op("not", TBool, ch...)
		case skAnd2, skAnd3:
			return Op("and", TBool, ch...)
		case skOr2, skOr3:
			return Op("or", TBool, ch...)
		default:
			return If(ch[0], ch[1], ch[2])
		}
	}
	return rec(s), vars
}

func ipow(b, e int) int {
	r := 1
	for i := 0; i < e; i++ {
		r *= b
	}
	return r
}

// decodeLabels turns an index into a labelling over nl labels.
func decodeLabels(idx, slots, nl int) []int {
	l := make([]int, slots)
	for i := 0; i < slots; i++ {
		l[i] = idx % nl
		idx /= nl
	}
	return l
}

// enumAssignment: the a-th assignment of vars over a domain of size dom
// (0 = true/1, 1 = false/0, 2 = unavailable).
func enumAssignment(vars []string, a, dom int) Binding {
	vals := map[string]interface{}{}
	var avail map[string]bool
	if dom == 3 {
		avail = map[string]bool{}
	}
	for _, v := range vars {
		d := a % dom
		a /= dom
		isInt := v[0] == 'i'
		switch d {
		case 0:
			if isInt {
				vals[v] = int64(1)
			} else {
				vals[v] = true
			}
		case 1:
			if isInt {
				vals[v] = int64(0)
			} else {
				vals[v] = false
			}
		default:
			// unavailable; value still needed for completions
			if isInt {
				vals[v] = int64(1)
			} else {
				vals[v] = true
			}
		}
		if avail != nil {
			avail[v] = d != 2
		}
	}
	return Binding{Vals: vals, Avail: avail}
}
