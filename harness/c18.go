package main

// C18 — scalar operators obey their algebra on the whole int64/bool domain.

import (
	"fmt"
	"math/rand"
	"strings"
)

var c18IntOps = []string{"add", "sub", "mul", "div", "mod", "gt", "lt", "ge", "le", "between"}
var c18BoolOps = []string{"and", "or", "xor", "not"}
var c18AnyOps = []string{"eq", "ne"}

type c18Case struct {
	op    string // canonical
	count int
}

var c18CaseList []c18Case

func c18Cases() []c18Case {
	if c18CaseList != nil {
		return c18CaseList
	}
	for _, op := range append(append(append([]string{}, c18IntOps...), c18BoolOps...), c18AnyOps...) {
		for _, n := range []int{0, 1, 2, 3, 4, 5, 6, 16, 127} {
			c18CaseList = append(c18CaseList, c18Case{op, n})
		}
	}
	return c18CaseList
}

func init() {
	register(&Prop{
		ID: "C18",
		Rule: "Complete grid: every scalar operator and every alias x operand count {0..6,16,127} x operand tuples over {MinInt64, MinInt64+1, -1, 0, 1, MaxInt64-1, MaxInt64} resp. {true,false} (all tuples up to length 3; PRNG-chosen beyond), zero divisors in every position, " +
			"a wrong-typed operand (string, list, boolean/integer of the other domain, nil) in every position; operands as literals and as variables; optimizations off and on (folded / fast). Each single-operator expression is evaluated through Compile+Eval and compared with an int64/bool oracle (value and error-ness); " +
			"all aliases of an operator must agree on every input; ne = not eq, le = not gt, ge = not lt, between = (a<=v and v<=b), n-ary eq = all equal are checked engine-against-engine. " +
			"A case is non-trivial when an extreme operand, a zero divisor, a wrong count or a wrong type is involved; distinct = distinct (expression, binding).",
		Assumptions: []string{
			"int64/bool oracle = applyBuiltin in ref.go (wrapping left folds, zero-divisor errors, comparisons, boolean folds)",
			"open known finding: and/or whose operator is bypassed by the evaluator's short-circuit jump (single boolean operand; non-boolean operand with a deciding or last boolean operand) return a boolean instead of an error",
		},
		NumCases: func(tier string) int { return len(c18Cases()) * 5 },
		Run:      c18Run,
		Floors: func(m *Merged, tier string) []string {
			var u []string
			for _, c := range []string{"wrong_type_cases", "wrong_count_cases", "zero_divisor_cases", "extreme_cases", "relations_checked", "alias_comparisons", "folded_cases", "variable_cases", "composition_cases"} {
				if m.C(c) == 0 {
					u = append(u, c+" = 0")
				}
			}
			for _, n := range allBuiltinNames() {
				cn := canonName(n)
				isScalar := false
				for _, o := range append(append(append([]string{}, c18IntOps...), c18BoolOps...), c18AnyOps...) {
					if o == cn {
						isScalar = true
					}
				}
				if isScalar && m.C("name_"+n) == 0 {
					u = append(u, "operator/alias never evaluated: "+n)
				}
			}
			return u
		},
		Extra: func(m *Merged, tier string) map[string]interface{} {
			return map[string]interface{}{"exhaustive_subspaces": []string{"all operand tuples of length <=3 over the extreme-value domain for every scalar operator and alias"}}
		},
	})
}

func c18Domain(op string) []interface{} {
	switch {
	case contains(c18BoolOps, op):
		return []interface{}{true, false}
	case contains(c18AnyOps, op):
		return []interface{}{int64(0), int64(1), int64(-1), true, false, "a", "", extremeInts[0], extremeInts[6]}
	}
	d := make([]interface{}, len(extremeInts))
	for i, v := range extremeInts {
		d[i] = v
	}
	return d
}

func contains(s []string, x string) bool {
	for _, y := range s {
		if y == x {
			return true
		}
	}
	return false
}

func c18Wrong(op string) []interface{} {
	switch {
	case contains(c18BoolOps, op):
		return []interface{}{int64(1), int64(0), "s", []int64{1}, []string{"a"}, nil}
	case contains(c18AnyOps, op):
		return []interface{}{[]int64{1}, []string{}, []string{"a"}}
	}
	return []interface{}{true, false, "s", "1", []int64{1}, []string{}, nil}
}

func c18Run(w *W, idx int) {
	cs := c18Cases()
	c := cs[idx%len(cs)]
	part := idx / len(cs) // 0: tuples, 1: wrong types, 2: random long tuples / extra, 3: relations
	r := w.Rand(idx)
	dom := c18Domain(c.op)
	switch part {
	case 0:
		if c.count <= 3 || (w.Thorough() && c.count <= 5 && ipow(len(dom), c.count) <= 20000) {
			total := ipow(len(dom), c.count)
			for t := 0; t < total; t++ {
				args := make([]interface{}, c.count)
				x := t
				for i := range args {
					args[i] = dom[x%len(dom)]
					x /= len(dom)
				}
				c18Eval(w, r, c.op, args)
			}
		} else {
			nt := 300
			if w.Thorough() {
				nt = 4000
			}
			for t := 0; t < nt; t++ {
				args := make([]interface{}, c.count)
				for i := range args {
					args[i] = dom[r.Intn(len(dom))]
				}
				if t%3 == 0 && !contains(c18BoolOps, c.op) && !contains(c18AnyOps, c.op) {
					// mostly small values so that folds do not always wrap or hit zero
					for i := range args {
						if r.Intn(3) != 0 {
							args[i] = int64(r.Intn(7) - 3)
						}
					}
				}
				c18Eval(w, r, c.op, args)
			}
		}
	case 1:
		// one wrong-typed operand in every position (other operands valid)
		if c.count == 0 {
			return
		}
		positions := c.count
		if positions > 8 {
			positions = 8
		}
		for p := 0; p < positions; p++ {
			pos := p
			if c.count > 8 && p >= 4 {
				pos = c.count - 1 - (p - 4)
			}
			for _, wv := range c18Wrong(c.op) {
				reps := 3
				if w.Thorough() {
					reps = 30
				}
				for rep := 0; rep < reps; rep++ {
					args := make([]interface{}, c.count)
					for i := range args {
						args[i] = dom[r.Intn(len(dom))]
					}
					args[pos] = wv
					c18Eval(w, r, c.op, args)
				}
			}
		}
	case 2:
		// zero divisors in every position; known-finding class for and/or
		if c.op == "div" || c.op == "mod" {
			for p := 0; p < c.count && p < 10; p++ {
				for rep := 0; rep < 6; rep++ {
					args := make([]interface{}, c.count)
					for i := range args {
						args[i] = []int64{1, -1, 2, 7, extremeInts[0], extremeInts[6]}[r.Intn(6)]
					}
					args[p] = int64(0)
					if rep%2 == 1 && p+1 < c.count {
						args[p+1] = "s" // a wrong type after the zero
					}
					c18Eval(w, r, c.op, args)
				}
			}
		}
		if c.op == "and" || c.op == "or" {
			// ill-formed siblings around deciding / last operands
			for t := 0; t < 200; t++ {
				args := make([]interface{}, c.count)
				for i := range args {
					switch r.Intn(4) {
					case 0:
						args[i] = int64(1)
					case 1:
						args[i] = "s"
					default:
						args[i] = r.Intn(2) == 0
					}
				}
				c18Eval(w, r, c.op, args)
			}
		}
	case 3:
		c18Relations(w, r, c)
	default:
		c18Compositions(w, r, c)
	}
}

// c18Compositions: the operator nested inside / around every other operator of its family (two levels),
// all truth assignments resp. extreme values, every optimization subset: folds must compose.
func c18Compositions(w *W, r *rand.Rand, c c18Case) {
	if c.count != 2 && c.count != 3 {
		return
	}
	var family []string
	var dom []interface{}
	switch {
	case contains(c18BoolOps, c.op) || c.op == "eq" || c.op == "ne":
		family = []string{"and", "or", "xor", "not", "eq", "ne"}
		dom = []interface{}{true, false}
	case c.op == "between" || contains([]string{"gt", "lt", "ge", "le"}, c.op):
		return
	default:
		family = []string{"add", "sub", "mul", "div", "mod"}
		dom = c18Domain("add")
	}
	ty := TBool
	if len(dom) > 2 {
		ty = TInt
	}
	arity := func(op string) int {
		switch op {
		case "not":
			return 1
		case "ne":
			return 2
		}
		return c.count
	}
	for _, other := range family {
		for _, outerIsC := range []bool{true, false} {
			outer, inner := c.op, other
			if !outerIsC {
				outer, inner = other, c.op
			}
			no, ni := arity(outer), arity(inner)
			for pos := 0; pos < no; pos++ {
				// build (outer x.. (inner y..) x..)
				nvars := no - 1 + ni
				names := make([]string, nvars)
				for i := range names {
					names[i] = fmt.Sprintf("v%d", i)
				}
				mk := func(asVars bool, vals []interface{}) *Node {
					k := 0
					leaf := func() *Node {
						defer func() { k++ }()
						if asVars {
							return Var(names[k], ty)
						}
						return Lit(vals[k])
					}
					och := make([]*Node, no)
					for i := range och {
						if i == pos {
							ich := make([]*Node, ni)
							for j := range ich {
								ich[j] = leaf()
							}
							och[i] = Op(aliasesOf[inner][r.Intn(len(aliasesOf[inner]))], ty, ich...)
						} else {
							och[i] = leaf()
						}
					}
					return Op(aliasesOf[outer][r.Intn(len(aliasesOf[outer]))], ty, och...)
				}
				total := ipow(len(dom), nvars)
				limit := 128
				if w.Thorough() {
					limit = 2048
				}
				step := 1
				if total > limit {
					step = total / limit
				}
				for t := r.Intn(step); t < total; t += step {
					vals := make([]interface{}, nvars)
					x := t
					for i := range vals {
						vals[i] = dom[x%len(dom)]
						x /= len(dom)
					}
					b := Binding{Vals: map[string]interface{}{}}
					for i, n := range names {
						b.Vals[n] = vals[i]
					}
					for _, asVars := range []bool{true, false} {
						tree := mk(asVars, vals)
						want, wantErr := refEnv(b).Eval(tree)
						src := tree.Prefix()
						for _, opts := range []OptSet{OptNone, OptAll, OptRN, OptCF | OptFE} {
							cfg := CaseCfg{Opts: opts}
							if asVars {
								cfg.VarNames = names
							}
							e, co := compileGuard(buildConfig(cfg, nil), src)
							w.Evals++
							if co.Err != nil || co.Panic != nil {
								w.Fail("compile-rejects/composition", "Compile failed on %s: %v %v", src, co.Err, co.Panic)
								continue
							}
							o, _ := callExpr(e, CallEval, fetcherFor(b, nil), nil, false)
							w.Evals++
							w.Inc("composition_cases")
							if d := sameOutcome(o, want, wantErr); d != "" {
								w.Fail("algebra/composition/"+outer+"-over-"+inner, "%s\nsource: %s\nbinding: %s\noptions: %s", d, src, b, opts)
							}
						}
					}
				}
			}
		}
	}
}

func c18Source(name string, args []interface{}, asVars bool) (string, Binding, []string) {
	var sb strings.Builder
	sb.WriteString("(" + name)
	b := Binding{Vals: map[string]interface{}{}}
	var names []string
	for i, a := range args {
		if asVars {
			n := fmt.Sprintf("v%d", i)
			names = append(names, n)
			b.Vals[n] = a
			sb.WriteString(" " + n)
		} else {
			sb.WriteString(" " + litText(a))
		}
	}
	sb.WriteString(")")
	return sb.String(), b, names
}

func hasNil(args []interface{}) bool {
	for _, a := range args {
		if a == nil {
			return true
		}
	}
	return false
}

// andOrBypass: what the evaluator returns when its short-circuit jump skips the and/or operator.
// decidingLiteralFirst: scanning left to right, does a deciding boolean come before every non-boolean operand?
func decidingLiteralFirst(op string, args []interface{}) bool {
	for _, a := range args {
		b, ok := a.(bool)
		if !ok {
			return false
		}
		if b == (op == "or") {
			return true
		}
	}
	return false
}

func andOrBypass(op string, args []interface{}) (bool, bool) {
	isOr := op == "or"
	for i, a := range args {
		if b, ok := a.(bool); ok {
			if b == isOr || i == len(args)-1 {
				return b, true
			}
		}
	}
	return false, false
}

func c18Classify(w *W, op string, args []interface{}) bool {
	nontrivial := false
	for _, a := range args {
		switch v := a.(type) {
		case int64:
			if v < -1000 || v > 1000 {
				w.Inc("extreme_cases")
				nontrivial = true
			}
		}
	}
	_, err := applyBuiltin(op, args)
	if be, ok := err.(*BuiltinErr); ok {
		nontrivial = true
		switch be.Why {
		case "count":
			w.Inc("wrong_count_cases")
		case "type", "uncomparable":
			w.Inc("wrong_type_cases")
		case "zero divisor":
			w.Inc("zero_divisor_cases")
		}
	}
	return nontrivial
}

func c18Eval(w *W, r *rand.Rand, op string, args []interface{}) {
	want, wantErr := applyBuiltin(op, args)
	nontrivial := c18Classify(w, op, args)
	type obs struct {
		name string
		mode string
		o    Outcome
	}
	var all []obs
	for _, name := range aliasesOf[op] {
		w.Inc("name_" + name)
		for mode := 0; mode < 4; mode++ {
			asVars := mode >= 2
			if !asVars && hasNil(args) {
				continue
			}
			opts := OptNone
			if mode%2 == 1 {
				opts = OptAll
			}
			src, b, names := c18Source(name, args, asVars)
			cfg := CaseCfg{Opts: opts, VarNames: names}
			cc := buildConfig(cfg, nil)
			e, co := compileGuard(cc, src)
			w.Evals++
			if co.Panic != nil {
				w.Fail("compile-panic/"+normPanic(co.Panic)+"@"+panicSite(co.Stack), "Compile panicked: %v\nsource: %s options: %s\n%s", co.Panic, firstN(src, 500), opts, co.Stack)
				continue
			}
			if co.Err != nil {
				if len(args) > 127 {
					continue
				}
				w.Fail("compile-rejects/"+op, "Compile rejected a single-operator expression: %v\nsource: %s", co.Err, firstN(src, 500))
				continue
			}
			o, _ := callExpr(e, CallEval, fetcherFor(b, nil), nil, false)
			w.Evals++
			w.Sample(op, fmt.Sprintf("%s %s options=%s -> %s", firstN(src, 200), firstN(b.String(), 200), opts, o))
			if asVars {
				w.Inc("variable_cases")
			} else if opts == OptAll {
				w.Inc("folded_cases")
			}
			modeName := []string{"literals/unoptimized", "literals/optimized", "variables/unoptimized", "variables/optimized"}[mode]
			all = append(all, obs{name, modeName, o})
			if nontrivial {
				w.Nontrivial(src, b.String())
			}
			if o.Panic != nil {
				w.Fail("eval-panic/"+normPanic(o.Panic)+"@"+panicSite(o.Stack), "Eval panicked: %v\nsource: %s binding: %s options: %s\n%s", o.Panic, firstN(src, 500), b, opts, o.Stack)
				continue
			}
			d := sameOutcome(o, want, wantErr)
			if d == "" {
				continue
			}
			if (op == "and" || op == "or") && wantErr != nil && o.Err == nil {
				// (the jump can only bypass an and/or that is a node of its own: with FastEvaluation a two-leaf and/or is
				// inlined and its operator always runs, so a boolean there is a different defect and is not the known finding)
				// ... unless constant folding meets the deciding literal before any non-boolean one)
				fast2 := opts&OptFE != 0 && len(args) == 2
				foldedEarly := !asVars && opts&OptCF != 0 && decidingLiteralFirst(op, args)
				if bv, ok := andOrBypass(op, args); ok && o.V == bv && (!fast2 || foldedEarly) {
					w.Fail("algebra/andor-short-circuit-bypasses-operator-checks", "%s\nsource: %s binding: %s options: %s", d, firstN(src, 500), b, opts)
					continue
				}
			}
			kind := "value"
			if wantErr != nil {
				kind = "missing-error"
			} else if o.Err != nil {
				kind = "spurious-error"
			}
			w.Fail("algebra/"+op+"/"+kind, "%s\nsource: %s (%s)\nbinding: %s", d, firstN(src, 500), modeName, b)
		}
	}
	// aliases agree with each other in every mode
	for i := 1; i < len(all); i++ {
		a, b := all[0], all[i]
		if a.mode != b.mode {
			// compare with the first observation of the same mode
			for j := 0; j < i; j++ {
				if all[j].mode == b.mode {
					a = all[j]
					break
				}
			}
			if a.mode != b.mode {
				continue
			}
		}
		w.Inc("alias_comparisons")
		same := (a.o.Err == nil) == (b.o.Err == nil) && (a.o.Panic == nil) == (b.o.Panic == nil)
		if same && a.o.Err == nil && a.o.Panic == nil {
			same = valEq(a.o.V, b.o.V)
		}
		if !same {
			w.Fail("alias-disagrees/"+op, "alias %s gives %s but %s gives %s (%s)\noperands: %s", b.name, b.o, a.name, a.o, b.mode, argsText(args))
		}
	}
}

// engine-against-engine relations
func c18Relations(w *W, r *rand.Rand, c c18Case) {
	if c.count != 2 && !(c.op == "between" && c.count == 3) && !(c.op == "eq" && c.count >= 2) {
		return
	}
	run := func(name string, args []interface{}) Outcome {
		src, b, names := c18Source(name, args, r.Intn(2) == 0)
		opts := OptSet(r.Intn(16))
		cc := buildConfig(CaseCfg{Opts: opts, VarNames: names}, nil)
		e, co := compileGuard(cc, src)
		if co.Err != nil || co.Panic != nil {
			return Outcome{Err: fmt.Errorf("compile: %v %v", co.Err, co.Panic)}
		}
		o, _ := callExpr(e, CallEval, fetcherFor(b, nil), nil, false)
		w.Evals++
		return o
	}
	runVars := func(name string, args []interface{}) Outcome {
		src, b, names := c18Source(name, args, true)
		cc := buildConfig(CaseCfg{Opts: OptSet(r.Intn(16)), VarNames: names}, nil)
		e, co := compileGuard(cc, src)
		if co.Err != nil || co.Panic != nil {
			return Outcome{Err: fmt.Errorf("compile: %v %v", co.Err, co.Panic)}
		}
		o, _ := callExpr(e, CallEval, fetcherFor(b, nil), nil, false)
		w.Evals++
		return o
	}
	neg := func(o Outcome) interface{} {
		if b, ok := o.V.(bool); ok && o.Err == nil {
			return !b
		}
		return nil
	}
	ints := func(n int) []interface{} {
		a := make([]interface{}, n)
		for i := range a {
			if r.Intn(2) == 0 {
				a[i] = extremeInts[r.Intn(len(extremeInts))]
			} else {
				a[i] = int64(r.Intn(5) - 2)
			}
		}
		return a
	}
	nrel := 400
	if w.Thorough() {
		nrel = 6000
	}
	for t := 0; t < nrel; t++ {
		switch c.op {
		case "ne":
			args := c18Domain("eq")
			a := []interface{}{args[r.Intn(len(args))], args[r.Intn(len(args))]}
			x, y := run(aliasesOf["ne"][r.Intn(2)], a), run(aliasesOf["eq"][r.Intn(3)], a)
			w.Inc("relations_checked")
			if x.Err != nil || y.Err != nil || x.V != neg(y) {
				w.Fail("relation/ne-is-not-eq", "ne%s = %s but eq = %s", argsText(a), x, y)
			}
			// values of other Go types reaching the operators un-normalised (through a fetcher that does not
			// normalise, as a registered operator's result or a ConstantMap entry would): eq and ne stay complementary
			foreign := []interface{}{int64(5), int(5), int32(5), uint8(5), float64(5), int64(0), int(0), uint8(0), float64(0), nil, "5", true}
			fa := []interface{}{foreign[r.Intn(len(foreign))], foreign[r.Intn(len(foreign))]}
			fx, fy := runVars(aliasesOf["ne"][r.Intn(2)], fa), runVars(aliasesOf["eq"][r.Intn(3)], fa)
			w.Inc("relations_checked_foreign_types")
			wantEq, _ := applyBuiltin("eq", fa)
			if fx.Err != nil || fy.Err != nil || fx.V != neg(fy) || fy.V != wantEq {
				w.Fail("relation/ne-is-not-eq", "operands %T(%v) and %T(%v): ne = %s, eq = %s (identical type and value: %v)", fa[0], fa[0], fa[1], fa[1], fx, fy, wantEq)
			}
		case "le", "ge":
			a := ints(2)
			other := map[string]string{"le": "gt", "ge": "lt"}[c.op]
			x, y := run(aliasesOf[c.op][r.Intn(2)], a), run(aliasesOf[other][r.Intn(2)], a)
			w.Inc("relations_checked")
			if x.Err != nil || y.Err != nil || x.V != neg(y) {
				w.Fail("relation/"+c.op+"-is-not-"+other, "%s%s = %s but %s = %s", c.op, argsText(a), x, other, y)
			}
		case "between":
			a := ints(3)
			x := run("between", a)
			lo := run(aliasesOf["le"][r.Intn(2)], []interface{}{a[1], a[0]})
			hi := run(aliasesOf["le"][r.Intn(2)], []interface{}{a[0], a[2]})
			w.Inc("relations_checked")
			if x.Err != nil || lo.Err != nil || hi.Err != nil || x.V != (lo.V == true && hi.V == true) {
				w.Fail("relation/between-is-inclusive-range", "between%s = %s but (<= a v) = %s and (<= v b) = %s", argsText(a), x, lo, hi)
			}
		case "eq":
			a := make([]interface{}, c.count)
			base := c18Domain("eq")
			v := base[r.Intn(len(base))]
			for i := range a {
				a[i] = v
				if r.Intn(c.count*2) == 0 {
					a[i] = base[r.Intn(len(base))]
				}
			}
			x := run(aliasesOf["eq"][r.Intn(3)], a)
			allEq := true
			for i := 1; i < len(a); i++ {
				p := run(aliasesOf["eq"][r.Intn(3)], []interface{}{a[0], a[i]})
				if p.V != true {
					allEq = false
				}
			}
			w.Inc("relations_checked")
			if x.Err != nil || x.V != allEq {
				w.Fail("relation/nary-eq-is-all-equal", "eq%s = %s but pairwise all-equal = %v", argsText(a), x, allEq)
			}
		default:
			return
		}
	}
}
