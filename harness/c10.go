package main

// C10 — constant folding respects operator purity and defers failures to run time.

import (
	"fmt"
	"math/rand"
	"sort"
	"strings"

	"github.com/onheap/eval"
)

func init() {
	register(&Prop{
		ID: "C10",
		Rule: "Programs mixing constants, variables, built-in operators, registered operators declared stateless and the same functions registered undeclared (incl. zero-argument and failing ones, a declared name without operator, a declared built-in name), " +
			"constant-only sub-trees and failing constant sub-expressions before/behind deciding operands and in untaken if branches; all 16 optimization subsets; 3 evaluations per binding. Monitors: invocation recorders inside every registered operator " +
			"(compile-time = nil context, run-time), sampled after Compile and after each evaluation, compared with the reference trace of the dumped tree; Compile must not fail; the engine's value/error must equal the reference's; " +
			"a reference folder over the source tree bounds which variable occurrences may disappear from Dump (only those inside an and/or decided by a constant operand, or nothing when folding is off). " +
			"A case is non-trivial when the program contains a registered operator whose arguments are all constants or a failing constant sub-expression; distinct = distinct (source, subset).",
		Assumptions: []string{
			"only upper bounds on folding are asserted (folding less than possible is never a violation)",
			"reference interpreter, independent Dump reader",
		},
		NumCases: func(tier string) int {
			if tier == "thorough" {
				return 4000000
			}
			return 80000
		},
		Run: c10Run,
		Floors: func(m *Merged, tier string) []string {
			var u []string
			for _, c := range []string{"custom_all_const_args_reached", "custom_all_const_args_unreached", "failing_const_reached", "failing_const_unreached", "stateless_folded_at_compile_time", "undeclared_runtime_calls", "vars_legitimately_folded_away", "zero_arg_ops", "derived_config_compilations", "duplicate_operand_evaluations", "marker_constant_probes"} {
				if m.C(c) < 100 {
					u = append(u, fmt.Sprintf("%s = %d (<100)", c, m.C(c)))
				}
			}
			return u
		},
	})
}

func c10Shapes(r *rand.Rand) *Node {
	b := func() *Node { return Var([]string{"b0", "b1"}[r.Intn(2)], TBool) }
	i := func() *Node { return Var([]string{"i0", "i1"}[r.Intn(2)], TInt) }
	k := func() *Node { return Lit(int64(r.Intn(5))) }
	pre := func() string { return []string{"c", "s"}[r.Intn(2)] }
	failC := func() *Node {
		switch r.Intn(6) {
		case 0:
			return Op(">", TBool, Op("/", TInt, k(), Lit(int64(0))), k())
		case 1:
			return Op("=", TBool, Op(pre()+"i", TInt, Lit(int64(3)), Lit(int64(3))), k())
		case 2:
			return Op(pre()+"fail", TBool)
		case 3:
			return Op("<", TBool, Op("version", TInt, Lit("1.x")), k())
		case 4:
			return Op("not", TBool, Lit(int64(1)))
		default:
			return Op(">", TBool, Op("%", TInt, k(), Op("-", TInt, Lit(int64(2)), Lit(int64(2)))), k())
		}
	}
	constCustom := func() *Node {
		switch r.Intn(5) {
		case 0:
			return Op(pre()+"b", TBool, Lit(r.Intn(2) == 0))
		case 1:
			return Op(pre()+"pos", TBool, Lit(int64(r.Intn(5)-2)))
		case 2:
			return Op(">", TBool, Op(pre()+"z", TInt), k())
		case 3:
			return Op("=", TBool, Op(pre()+"i", TInt, Lit(int64(5)), k()), k())
		default:
			return Op(pre()+"pos", TBool, Op(pre()+"pick", TInt, Lit(r.Intn(2) == 0), k(), Op(pre()+"z", TInt)))
		}
	}
	and := func(ch ...*Node) *Node { return Op([]string{"and", "&&"}[r.Intn(2)], TBool, ch...) }
	or := func(ch ...*Node) *Node { return Op([]string{"or", "|"}[r.Intn(2)], TBool, ch...) }
	x := func() *Node {
		if r.Intn(2) == 0 {
			return failC()
		}
		return constCustom()
	}
	// two calls of one operator whose constant arguments print alike but differ in type: the first succeeds, the second fails
	alike := func() (*Node, *Node) {
		switch r.Intn(5) {
		case 0:
			return Op("=", TBool, Op("+", TInt, Lit(int64(1)), Lit(int64(2))), k()), Op("=", TBool, Op("+", TInt, Lit("1"), Lit(int64(2))), k())
		case 1:
			return Op("in", TBool, Lit(int64(2)), Lit([]int64{1, 2, 3})), Op("in", TBool, Lit(int64(2)), Lit([]string{"1", "2", "3"}))
		case 2:
			return Op(">", TBool, Lit(int64(3)), Lit(int64(2))), Op(">", TBool, Lit(int64(3)), Lit("2"))
		case 3:
			return Op("spos", TBool, Lit(int64(1))), Op("spos", TBool, Lit("1"))
		default:
			return Op("overlap", TBool, Lit([]int64{1, 2}), Lit([]int64{2})), Op("overlap", TBool, Lit([]int64{1, 2}), Lit([]string{"2"}))
		}
	}
	if r.Intn(6) == 0 {
		ok, bad := alike()
		switch r.Intn(4) {
		case 0:
			return and(b(), ok, bad)
		case 1:
			return or(and(b(), ok), and(b(), bad))
		case 2:
			return If(b(), ok, bad)
		default:
			return and(bad, b(), ok)
		}
	}
	switch r.Intn(14) {
	case 12, 13:
		// An and/or whose LAST operand is a constant sub-expression that folds to a non-boolean (a number, a version): no
		// constant operand decides it, so the variables and calls before it stay, and when none of them decides at run
		// time the operator is applied and reports the ill-typed operand. (Last, three operands, no boolean literal and
		// no Reordering - see illTypedAndOr: elsewhere a deciding operand may skip the operator's check, the open C18 finding.)
		nb := []*Node{
			Op("+", TInt, Lit(int64(1)), Lit(int64(2))), Op("*", TInt, k(), k()), Op("t_version", TInt, Lit("1.2.3")),
			Op("sz", TInt), Op("-", TInt, Op("sz", TInt), k()), Op("date", TInt, Lit("2021-02-03")), Op("ss", TStr, Lit("a")),
		}[r.Intn(7)]
		first := b()
		if r.Intn(2) == 0 {
			first = Op(">", TBool, i(), k())
		}
		second := Op("cb", TBool, b())
		if r.Intn(3) == 0 {
			second = Op("cpos", TBool, i())
		}
		if r.Intn(2) == 0 {
			return and(first, second, nb)
		}
		return or(first, second, nb)
	case 0:
		return and(Lit(false), x())
	case 1:
		return or(Lit(true), x(), b())
	case 2:
		return and(b(), x())
	case 3:
		return and(x(), b())
	case 4:
		return If(Lit(r.Intn(2) == 0), x(), x())
	case 5:
		return If(b(), x(), Lit(true))
	case 6:
		return and(b(), or(Lit(true), x()), x())
	case 7:
		return or(and(Lit(false), b(), x()), b())
	case 8:
		return Op("+", TInt, Op(pre()+"z", TInt), i(), Op("*", TInt, k(), k()), Op(pre()+"i", TInt, k(), Lit(int64(9))))
	case 9:
		return and(Op(">", TBool, i(), k()), or(b(), Lit(false), and(Lit(true), b())), constCustom())
	case 10:
		return and(Op("=", TBool, Op("+", TInt, k(), k()), k()), x(), or(b(), Lit(true)))
	default:
		return or(x(), and(b(), Lit(false)), If(x(), b(), b()))
	}
}

// illTypedAndOr: the root is an and/or whose last operand is a constant sub-expression folding to a non-boolean.
func illTypedAndOr(n *Node, declared map[string]bool) bool {
	if !n.IsAndOr() || len(n.Ch) < 3 {
		return false
	}
	v, ok := refFold(n.Ch[len(n.Ch)-1], declared)
	if !ok {
		return false
	}
	_, isBool := v.(bool)
	return !isBool
}

// refFold: the reference folder. Returns (value, decided) for a source sub-tree
// under the most generous folding the property permits.
func refFold(n *Node, declared map[string]bool) (interface{}, bool) {
	switch n.Kind {
	case KLit:
		return n.Val, true
	case KVar, KIf:
		return nil, false
	}
	vals := make([]interface{}, 0, len(n.Ch))
	all := true
	for _, c := range n.Ch {
		v, ok := refFold(c, declared)
		if !ok {
			all = false
			continue
		}
		vals = append(vals, v)
		if n.IsAndOr() {
			if b, isB := v.(bool); isB && b == isOrName(n.Name) {
				return b, true
			}
		}
	}
	if !all {
		return nil, false
	}
	if op, ok := stdCustom[n.Name]; ok {
		if !declared[n.Name] {
			return nil, false
		}
		v, err := op.Fn(vals)
		return v, err == nil
	}
	v, err := applyBuiltin(n.Name, vals)
	return v, err == nil
}

// requiredVars: variable occurrences that may not disappear from Dump.
func requiredVars(n *Node, declared map[string]bool, folding bool, out map[string]int) {
	if folding {
		if _, decided := refFold(n, declared); decided {
			return
		}
	}
	if n.Kind == KVar {
		out[n.Name]++
	}
	for _, c := range n.Ch {
		requiredVars(c, declared, folding, out)
	}
}

// c10Derived: two configs derived from one base (whose stateless list has spare capacity), each declaring
// a different operator stateless. Only the operator a config declares itself may run during its Compile.
func c10Derived(w *W, r *rand.Rand) {
	calls := map[string]*int{}
	mkOp := func(name string) eval.Operator {
		n := new(int)
		calls[name] = n
		return func(ctx *eval.Ctx, p []eval.Value) (eval.Value, error) {
			if ctx == nil {
				*n++
			}
			return int64(len(p)), nil
		}
	}
	base := eval.NewConfig(eval.Optimizations(true))
	base.StatelessOperators = make([]string, 0, 1+r.Intn(6))
	nBase := r.Intn(2)
	for i := 0; i < nBase && len(base.StatelessOperators) < cap(base.StatelessOperators); i++ {
		base.StatelessOperators = append(base.StatelessOperators, "add")
	}
	names := []string{"opA", "opB", "opC"}
	for _, n := range names {
		base.OperatorMap[n] = mkOp(n)
	}
	how := r.Intn(2)
	derive := func() *eval.Config {
		if how == 0 {
			return eval.NewConfig(eval.ExtendConf(base))
		}
		return eval.CopyConfig(base)
	}
	var cfgs []*eval.Config
	for i := range names {
		c := derive()
		c.StatelessOperators = append(c.StatelessOperators, names[i])
		cfgs = append(cfgs, c)
	}
	// a derived config that takes an operator OFF the stateless list it inherited
	{
		base2 := eval.NewConfig(eval.Optimizations(true))
		for _, n := range names {
			base2.OperatorMap[n] = base.OperatorMap[n]
		}
		base2.StatelessOperators = append(base2.StatelessOperators, "opA", "opB")
		var d *eval.Config
		if how == 0 {
			d = eval.NewConfig(eval.ExtendConf(base2))
		} else {
			d = eval.CopyConfig(base2)
		}
		// keep only opB
		kept := d.StatelessOperators[:0:0]
		for _, n := range d.StatelessOperators {
			if n != "opA" {
				kept = append(kept, n)
			}
		}
		d.StatelessOperators = kept
		eval.GetOrRegisterKey(d, "x")
		for _, n := range names {
			*calls[n] = 0
		}
		_, co := compileGuard(d, "(+ (opA 1) (opB 1 2) (opC 1 2 3) x)")
		w.Evals++
		w.Inc("derived_config_compilations")
		if co.Err == nil && co.Panic == nil && (*calls["opA"] > 0 || *calls["opC"] > 0) {
			w.Fail("undeclared-operator-invoked-at-compile-time", "a config derived by %s from a base declaring opA and opB stateless, with opA then removed from its StatelessOperators, still invoked opA %d / opC %d time(s) during Compile\nStatelessOperators of this config: %v",
				[]string{"ExtendConf", "CopyConfig"}[how], *calls["opA"], *calls["opC"], d.StatelessOperators)
		}
	}
	src := "(+ (opA 1) (opB 1 2) (opC 1 2 3) x)"
	for i, c := range cfgs {
		eval.GetOrRegisterKey(c, "x")
		for _, n := range names {
			*calls[n] = 0
		}
		_, co := compileGuard(c, src)
		w.Evals++
		w.Inc("derived_config_compilations")
		if co.Err != nil || co.Panic != nil {
			w.Fail("derived-config-compile-fails", "Compile failed on a derived config: %v %v", co.Err, co.Panic)
			continue
		}
		for j, n := range names {
			if j != i && *calls[n] > 0 {
				w.Fail("undeclared-operator-invoked-at-compile-time", "config %d (derived by %s from a base with spare capacity in StatelessOperators) declares only %s stateless, but %s was invoked %d time(s) during its Compile\nsource: %s\nStatelessOperators of this config: %v",
					i, []string{"ExtendConf", "CopyConfig"}[how], names[i], n, *calls[n], src, c.StatelessOperators)
			}
		}
	}
}

func c10Run(w *W, idx int) {
	r := w.Rand(idx)
	if idx%50 == 49 {
		c10Derived(w, r)
		return
	}
	if idx%50 == 48 {
		c10Duplicates(w, r)
		return
	}
	if idx%50 == 47 {
		c10MarkerConstants(w, r)
		return
	}
	var tree *Node
	stratum := "shapes"
	switch idx % 4 {
	case 0, 1:
		tree = c10Shapes(r)
	case 2:
		g := stratumByName("mixed").Make(r)
		g.Stateless = true
		tree = g.Root(2 + r.Intn(3))
		stratum = "mixed"
	default:
		g := stratumByName("failing").Make(r)
		g.Fail = 0.2
		tree = g.Root(2 + r.Intn(3))
		stratum = "failing"
	}
	src := tree.Prefix()
	w.Inc("programs")
	w.Inc("programs_" + stratum)
	w.Sample(stratum, src)
	if registerOperatorFailures > 0 {
		w.Fail("register-operator-rejects-fresh-name", "RegisterOperator returned an error for a fresh, non-built-in operator name (%d times)", registerOperatorFailures)
		registerOperatorFailures = 0
	}
	declared := map[string]bool{}
	for _, s := range stdStateless {
		declared[s] = true
	}

	// static coverage facts about the source
	hasConstCustom, hasFailConst := false, false
	tree.Walk(func(n *Node) {
		if n.Kind != KOp {
			return
		}
		allConst := true
		for _, c := range n.Ch {
			if _, ok := refFoldConstOnly(c); !ok {
				allConst = false
			}
		}
		if _, isCustom := stdCustom[n.Name]; isCustom && allConst {
			hasConstCustom = true
			if len(n.Ch) == 0 {
				w.Inc("zero_arg_ops")
			}
		}
		if allConst {
			vals := make([]interface{}, len(n.Ch))
			for i, c := range n.Ch {
				vals[i], _ = refFoldConstOnly(c)
			}
			var err error
			if op, ok := stdCustom[n.Name]; ok {
				_, err = op.Fn(vals)
			} else if !n.IsAndOr() || len(n.Ch) >= 2 {
				_, err = applyBuiltin(n.Name, vals)
			}
			if err != nil {
				hasFailConst = true
			}
		}
	})

	bs := genBindings(r, tree, 3, 0)
	illTyped := stratum == "shapes" && illTypedAndOr(tree, declared)
	if illTyped {
		w.Inc("andor_with_nonboolean_constant_last")
	}
	for _, o := range allOptSets() {
		if illTyped && o&OptRO != 0 {
			continue // Reordering may move the ill-typed operand ahead of a deciding one (C18's open finding then applies)
		}
		cfg := cfgFor(tree, o, r.Intn(2) == 0)
		v, ok := compileVariant(w, tree, src, cfg, "c10")
		if !ok {
			continue
		}
		if hasConstCustom || hasFailConst {
			w.Nontrivial(src, o.String())
		}
		// (1) during Compile only built-in and declared-stateless operators run
		for _, e := range v.CfgRec.Effects {
			if !declared[e.Name] {
				w.Fail("undeclared-operator-invoked-at-compile-time", "operator %s is not declared stateless but was invoked during Compile: %s\nsource: %s\nconfig: %s", e.Name, e, src, cfg)
			} else {
				w.Inc("stateless_folded_at_compile_time")
			}
		}
		if o&OptCF == 0 && v.CfgRec.CompileCalls > 0 {
			w.Fail("compile-time-call-with-folding-off", "registered operators were invoked during Compile although ConstantFolding is off: %s\nsource: %s\nconfig: %s", effsText(v.CfgRec.Effects), src, cfg)
		}
		if v.DumpErr != nil {
			w.Inconclusive = appendCapped(w.Inconclusive, "dump unreadable: "+v.DumpErr.Error())
			continue
		}
		// (5) variables may disappear only inside decided and/or
		req := map[string]int{}
		requiredVars(tree, declared, o&OptCF != 0, req)
		have := map[string]int{}
		v.DumpTree.Walk(func(n *Node) {
			if n.Kind == KVar {
				have[n.Name]++
			}
		})
		all := map[string]int{}
		requiredVars(tree, declared, false, all)
		for name, cnt := range req {
			if have[name] < cnt {
				w.Fail("variable-folded-away", "variable %s occurs %d time(s) outside any sub-expression decided by a constant and/or operand, but only %d time(s) in the optimized program\nsource: %s\nconfig: %s\ndump: %s", name, cnt, have[name], src, cfg, oneLine(v.Dump))
			}
		}
		for name, cnt := range all {
			if have[name] < cnt {
				w.Inc("vars_legitimately_folded_away")
				break
			}
		}
		compileCallsBefore := v.CfgRec.CompileCalls
		for _, b := range bs {
			// reference on the source tree (value/error) and on the dumped tree (trace)
			senv := refEnv(b)
			senv.WantCov = true
			want, wantErr := senv.Eval(tree)
			denv := refEnv(b)
			denv.FastOpt = o&OptFE != 0
			dwant, dwantErr := denv.Eval(v.DumpTree)
			for rep := 0; rep < 3; rep++ {
				rec := &Recorder{}
				out, _ := callExpr(v.E, CallEval, fetcherFor(b, rec), nil, false)
				w.Evals++
				if out.Panic != nil {
					w.Fail("eval-panic/"+normPanic(out.Panic)+"@"+panicSite(out.Stack), "Eval panicked: %v\n%s", out.Panic, describeCase(src, cfg, b))
					break
				}
				if rec.CompileCalls != 0 {
					w.Fail("nil-context-call-at-run-time", "a registered operator was invoked with a nil context during evaluation\n%s", describeCase(src, cfg, b))
				}
				w.Count("undeclared_runtime_calls", int64(rec.RunCalls))
				// (2) every evaluation performs the calls of the optimized tree again: nothing is baked in
				if !matchEffects(denv.Trace, rec.Effects) {
					w.Fail("runtime-calls-differ-from-optimized-tree", "evaluation %d: registered-operator calls / fetches differ from the reference trace of the dumped tree (a result baked in, or a skipped operand evaluated)\nexpected: %s\nobserved: %s\n%s\ndump: %s",
						rep+1, effsText(denv.Trace), effsText(rec.Effects), describeCase(src, cfg, b), oneLine(v.Dump))
					break
				}
				// (4) the error surfaces from Eval exactly when the sub-expression is reached
				// (in the optimized form, which is what Dump shows; plain-evaluation equivalence is C02's claim)
				if d := sameOutcome(out, dwant, dwantErr); d != "" {
					w.Fail("deferred-failure-wrong", "%s\n%s\ndump: %s", d, describeCase(src, cfg, b), oneLine(v.Dump))
					break
				}
				if o&OptRO == 0 && wantErr == nil {
					if d := sameOutcome(out, want, nil); d != "" {
						w.Fail("folding-changes-value", "%s\n%s\ndump: %s", d, describeCase(src, cfg, b), oneLine(v.Dump))
						break
					}
				}
				// plain evaluation reaches a failing built-in / operator application but the engine returns a value:
				// legitimate only when an enclosing and/or is decided by a constant operand (it may absorb the failure)
				if o&OptRO == 0 && out.Err == nil && isBuiltinErr(wantErr) && senv.FailNode != nil {
					if !insideDecidedAndOr(tree, senv.FailNode, declared, o&OptCF != 0) {
						w.Fail("failing-subexpression-did-not-surface", "plain evaluation fails at %s (%v) and no enclosing and/or is decided by a constant operand, but Eval returned %s\n%s\ndump: %s",
							firstN(senv.FailNode.Prefix(), 200), wantErr, out, describeCase(src, cfg, b), oneLine(v.Dump))
						break
					}
					w.Inc("failures_absorbed_by_constant_andor")
				}
			}
			// coverage: reached / unreached
			reachedCustomConst, reachedFail := false, wantErr != nil && !isSentinelUnbound(wantErr)
			for _, e := range senv.Trace {
				if !e.Get {
					reachedCustomConst = true
				}
			}
			if hasConstCustom {
				if reachedCustomConst {
					w.Inc("custom_all_const_args_reached")
				} else {
					w.Inc("custom_all_const_args_unreached")
				}
			}
			if hasFailConst {
				if reachedFail {
					w.Inc("failing_const_reached")
				} else {
					w.Inc("failing_const_unreached")
				}
			}
		}
		if v.CfgRec.CompileCalls != compileCallsBefore {
			w.Fail("nil-context-call-after-compile", "registered operators were invoked with a nil context after Compile returned\nsource: %s\nconfig: %s", src, cfg)
		}
	}
}

func isSentinelUnbound(err error) bool { return err == ErrUnbound }

// refFoldConstOnly: value of a literal leaf (used for static coverage facts).
func refFoldConstOnly(n *Node) (interface{}, bool) {
	if n.Kind == KLit {
		return n.Val, true
	}
	return nil, false
}

var _ = sort.Strings
var _ = strings.Join

// insideDecidedAndOr: is target inside an and/or of tree that the reference folder decides by a constant operand?
func insideDecidedAndOr(tree, target *Node, declared map[string]bool, folding bool) bool {
	if !folding {
		return false
	}
	var path []*Node
	var find func(n *Node) bool
	find = func(n *Node) bool {
		path = append(path, n)
		if n == target {
			return true
		}
		for _, c := range n.Ch {
			if find(c) {
				return true
			}
		}
		path = path[:len(path)-1]
		return false
	}
	if !find(tree) {
		return true // not found: do not judge
	}
	for _, a := range path[:len(path)-1] {
		if a.IsAndOr() {
			if _, decided := refFold(a, declared); decided {
				return true
			}
		}
	}
	return false
}

// c10Duplicates: an undeclared operator runs each time its sub-expression is evaluated - also when the same sub-expression
// occurs several times among the operands of nested and/or nodes that ReduceNesting merges. The number of calls per
// evaluation is the same under every option subset (the binding lets every operand be evaluated).
func c10Duplicates(w *W, r *rand.Rand) {
	isOr := r.Intn(2) == 0
	name := []string{"and", "&&"}[r.Intn(2)]
	if isOr {
		name = []string{"or", "||"}[r.Intn(2)]
	}
	// the repeated operand: an undeclared operator below a built-in (or stateless) root; non-deciding value
	reading := func() *Node {
		call := Op("ci", TInt, Var("i0", TInt), Lit(int64(3))) // i0 - 3
		var t *Node
		switch r.Intn(3) {
		case 0:
			t = Op(">", TBool, call, Lit(int64(0)))
		case 1:
			t = Op("spos", TBool, call)
		default:
			t = Op("not", TBool, Op("<", TBool, call.Clone(), Lit(int64(1))))
		}
		if isOr {
			return Op("not", TBool, t)
		}
		return t
	}
	dup := reading()
	leaf := func() *Node { return Var(fmt.Sprintf("b%d", r.Intn(3)), TBool) }
	group := func() *Node {
		n := 2 + r.Intn(2)
		ch := make([]*Node, n)
		for i := range ch {
			ch[i] = leaf()
		}
		ch[r.Intn(n)] = dup.Clone()
		return Op(name, TBool, ch...)
	}
	var tree *Node
	switch r.Intn(3) {
	case 0:
		tree = Op(name, TBool, group(), group())
	case 1:
		tree = Op(name, TBool, group(), leaf(), Op(name, TBool, group(), dup.Clone()))
	default:
		tree = Op(name, TBool, dup.Clone(), group(), group())
	}
	occurrences := 0
	tree.Walk(func(n *Node) {
		if n.Kind == KOp && n.Name == "ci" {
			occurrences++
		}
	})
	vals := map[string]interface{}{"i0": int64(10), "b0": !isOr, "b1": !isOr, "b2": !isOr}
	src := tree.Prefix()
	w.Inc("programs")
	w.Inc("programs_duplicates")
	for _, o := range allOptSets() {
		cfg := cfgFor(tree, o, false)
		cfg.Stateless = stdStateless
		v, ok := compileVariant(w, tree, src, cfg, "duplicates")
		if !ok {
			continue
		}
		for _, kind := range []CallKind{CallEval, CallTryEval} {
			rec := &Recorder{}
			out, _ := callExpr(v.E, kind, fetcherFor(Binding{Vals: vals}, rec), nil, false)
			w.Evals++
			calls := 0
			for _, e := range rec.Effects {
				if !e.Get && e.Name == "ci" {
					calls++
				}
			}
			w.Inc("duplicate_operand_evaluations")
			if out.Panic != nil || out.Err != nil || out.V != !isOr || calls != occurrences {
				w.Fail("undeclared-operator-call-dropped", "%s: result %s, the undeclared operator ci ran %d time(s) in one evaluation; it occurs %d times and every operand is evaluated under this binding\nsource: %s\nconfig: %s\ndump: %s", []string{"Eval", "TryEval"}[kind], out, calls, occurrences, src, v.Cfg, oneLine(v.Dump))
				return
			}
		}
	}
}

// c10MarkerConstants: a constant may hold any value, also the DNE marker (ConstantMap entry, result of a stateless
// operator). Under Eval the marker is a value like any other non-boolean, non-integer value: a constant sub-expression
// over it fails when it is reached, with constant folding exactly as without.
func c10MarkerConstants(w *W, r *rand.Rand) {
	srcs := []string{"(add 1 KDNE)", "(lt KDNE 3)", "(not KDNE)", "(if (eq KDNE 1) 1 2)", "(and true (not KDNE))", "(+ i0 (mul 2 KDNE))",
		"(if b0 (add 1 KDNE) 5)", "(eq (sdne) 1)", "(add 1 (sdne))", "(or b0 (lt (sdne) 3))", "(in KDNE (1 2))", "(between 1 KDNE 3)"}
	src := srcs[r.Intn(len(srcs))]
	vals := map[string]interface{}{"i0": int64(r.Intn(5)), "b0": r.Intn(2) == 0}
	var ref *Outcome
	for _, o := range allOptSets() {
		cc := buildConfig(CaseCfg{Opts: o, VarNames: []string{"b0", "i0"}, Custom: stdCustom, Stateless: stdStateless}, nil)
		cc.ConstantMap["KDNE"] = eval.DNE
		cc.OperatorMap["sdne"] = func(*eval.Ctx, []eval.Value) (eval.Value, error) { return eval.DNE, nil }
		cc.StatelessOperators = append(cc.StatelessOperators, "sdne")
		e, co := compileGuard(cc, src)
		w.Evals++
		w.Inc("marker_constant_probes")
		if co.Panic != nil || co.Err != nil {
			w.Fail("compile-fails-on-constant-subexpression", "Compile(%s) gave %s under %s (KDNE is a ConstantMap entry holding the DNE marker)", src, co, o)
			return
		}
		out := guard(func() (eval.Value, error) { return e.Eval(eval.NewCtxFromVars(cc, vals)) })
		w.Evals++
		if out.Panic != nil {
			w.Fail("panic/"+normPanic(out.Panic)+"@"+panicSite(out.Stack), "Eval(%s) panicked under %s: %v", src, o, out.Panic)
			return
		}
		if ref == nil {
			oc := out
			ref = &oc // the unoptimized program (allOptSets starts with none)
			continue
		}
		if (ref.Err == nil) != (out.Err == nil) || (ref.Err == nil && !valEq(ref.V, out.V)) {
			w.Fail("folding-changes-outcome-of-marker-constant", "%s with KDNE = the DNE marker (a ConstantMap entry) and sdne = a stateless operator returning it: unoptimized Eval gives %s, under %s it gives %s (binding %v)", src, *ref, o, out, vals)
			return
		}
	}
}
