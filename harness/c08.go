package main

// C08 — Compile is a pure, deterministic function of config contents and source.

import (
	"fmt"
	"math"
	"math/rand"
	"reflect"
	"regexp"
	"sort"
	"strings"
	"sync"
	"unsafe"

	"github.com/onheap/eval"
)

func init() {
	register(&Prop{
		ID: "C08",
		Rule: "Configs with constants (incl. list values), variables (explicit keys), registered and stateless-declared operators, cost maps and every option value, also &Config{} literals with nil maps; sources with every directive combination (one or several ';;;;' lines, after a plain comment, switch-all and overrides), undefined-variable mode, infix mode. " +
			"Every Compile is bracketed by a deep snapshot of the caller's Config (all five maps incl. operator code pointers, option values, costs bit-for-bit, the stateless list incl. the spare capacity of its backing array): any difference is a violation. " +
			"The same (config, source) is compiled repeatedly, in shuffled order relative to other compilations, from equal-but-distinct config objects and (race phase) from 16 goroutines over one shared Config under the race detector: Dump text and results on all bindings must be equal. " +
			"CopyConfig/ExtendConf results are probed for aliasing in both directions (a marker written into every map / slice element of one side must not show in the other). " +
			"A case is non-trivial when the source has >=1 directive or the config >=1 entry in each map; distinct = distinct (config summary, source).",
		Assumptions:  []string{"operator code pointers are compared with reflect; behaviour is compared on PRNG-chosen bindings"},
		NumCases:     func(tier string) int { return map[string]int{"quick": 8000, "thorough": 500000}[tier] },
		Run:          c08Run,
		RaceNumCases: func(tier string) int { return map[string]int{"quick": 128, "thorough": 8000}[tier] },
		RaceRun:      c08Race,
		RaceProcs:    8,
		Floors: func(m *Merged, tier string) []string {
			var u []string
			if m.C("race_concurrent_batches") < 100 {
				u = append(u, fmt.Sprintf("only %d concurrent compile batches", m.C("race_concurrent_batches")))
			}
			for o := 0; o < 16; o++ {
				if m.C(fmt.Sprintf("directive_subset_%d", o)) == 0 {
					u = append(u, fmt.Sprintf("directive combination %d never compiled", o))
				}
			}
			for _, c := range []string{"snapshots_compared", "repeat_compilations", "shuffled_compilations", "aliasing_probes_copyconfig", "aliasing_probes_extendconf", "nil_map_configs", "big_list_constants", "undefined_mode_sources", "infix_sources", "sources_with_plain_comment_before_directive", "compile_errors_snapshotted", "nil_config_compilations", "edited_config_compilations", "other_config_registration_probes"} {
				if m.C(c) == 0 {
					u = append(u, c+" = 0")
				}
			}
			if len(u) > 6 {
				u = append(u[:6], fmt.Sprintf("... and %d more", len(u)-6))
			}
			return u
		},
	})
}

// configSnapshot: canonical text of everything a caller can observe in a Config.
func configSnapshot(c *eval.Config) string {
	var sb strings.Builder
	keys := func(m interface{}) []string {
		v := reflect.ValueOf(m)
		var ks []string
		for _, k := range v.MapKeys() {
			ks = append(ks, fmt.Sprint(k.Interface()))
		}
		sort.Strings(ks)
		return ks
	}
	fmt.Fprintf(&sb, "ConstantMap(nil=%v):", c.ConstantMap == nil)
	for _, k := range keys(c.ConstantMap) {
		v := c.ConstantMap[k]
		fmt.Fprintf(&sb, "%s=%T:%v", k, v, v)
		switch x := v.(type) {
		case []int64:
			fmt.Fprintf(&sb, "@%p/%d;", unsafe.SliceData(x), cap(x))
		case []string:
			fmt.Fprintf(&sb, "@%p/%d;", unsafe.SliceData(x), cap(x))
		default:
			sb.WriteString(";")
		}
	}
	fmt.Fprintf(&sb, "\nOperatorMap(nil=%v):", c.OperatorMap == nil)
	for _, k := range keys(c.OperatorMap) {
		fmt.Fprintf(&sb, "%s=%x;", k, reflect.ValueOf(c.OperatorMap[k]).Pointer())
	}
	fmt.Fprintf(&sb, "\nVariableKeyMap(nil=%v):", c.VariableKeyMap == nil)
	for _, k := range keys(c.VariableKeyMap) {
		fmt.Fprintf(&sb, "%s=%d;", k, c.VariableKeyMap[k])
	}
	fmt.Fprintf(&sb, "\nCostsMap(nil=%v):", c.CostsMap == nil)
	for _, k := range keys(c.CostsMap) {
		fmt.Fprintf(&sb, "%s=%x;", k, math.Float64bits(c.CostsMap[k]))
	}
	fmt.Fprintf(&sb, "\nCompileOptions(nil=%v):", c.CompileOptions == nil)
	for _, k := range keys(c.CompileOptions) {
		fmt.Fprintf(&sb, "%s=%v;", k, c.CompileOptions[eval.CompileOption(k)])
	}
	so := c.StatelessOperators
	fmt.Fprintf(&sb, "\nStatelessOperators(nil=%v,len=%d,cap=%d,@%p):", so == nil, len(so), cap(so), unsafe.SliceData(so))
	for _, s := range so[:cap(so)] {
		fmt.Fprintf(&sb, "%q;", s)
	}
	return sb.String()
}

type c08Case struct {
	cc    *eval.Config
	mk    func() *eval.Config // builds an equal but distinct config object
	src   string
	tree  *Node
	binds []Binding
	desc  string

	nilMaps bool
}

func c08Directive(r *rand.Rand, w *W) string {
	o := OptSet(r.Intn(16))
	w.Inc(fmt.Sprintf("directive_subset_%d", int(o)))
	d := o.Directive(r)
	if r.Intn(3) == 0 {
		d = ";; plain note\n" + d
		w.Inc("sources_with_plain_comment_before_directive")
	}
	if r.Intn(6) == 0 {
		d = "\n  " + d
	}
	return d
}

func c08Make(w *W, r *rand.Rand, k int) *c08Case {
	_, _, tree := pickStratum(r, r.Intn(len(strata)))
	if tree.Size() > 300 {
		g := stratumByName("mixed").Make(r)
		g.Budget = 150
		tree = g.Root(3)
	}
	undefined := r.Intn(3) == 0
	infix := r.Intn(5) == 0
	if infix {
		tree = toInfixable(tree)
		w.Inc("infix_sources")
	}
	if undefined {
		w.Inc("undefined_mode_sources")
	}
	cfg := cfgFor(tree, OptSet(r.Intn(16)), undefined)
	cfg.Infix = infix
	cfg.StrayOptimize = []int{0, 0, 1, 2}[r.Intn(4)] // the general optimize key next to the four switches (it selects nothing there)
	if r.Intn(6) == 0 {
		// a Config with many entries in every map (sizes around powers of two, where a map or a lookup table may change shape)
		cfg.Pad = []int{63, 64, 65, 128, 257, 300, 1100}[r.Intn(7)]
		w.Inc("padded_configs")
	}
	cfg.Consts = map[string]interface{}{}
	for n, v := range stdConsts {
		cfg.Consts[n] = v
	}
	tree.Consts(cfg.Consts)
	if r.Intn(4) == 0 && !infix {
		// large unsorted list constants used by constant-only sub-expressions (folded during Compile)
		w.Inc("big_list_constants")
		na, nb := []int{20, 60, 100, 150}[r.Intn(4)], []int{40, 60, 100}[r.Intn(3)]
		var extra *Node
		if r.Intn(2) == 0 {
			a, b := bigIntList(r, na), bigIntList(r, nb)
			extra = Op("overlap", TBool, ConstRef("KBIGA", a), ConstRef("KBIGB", b))
			switch r.Intn(4) {
			case 0:
				extra = Op("in", TBool, Lit(a[len(a)/2]), ConstRef("KBIGA", a))
			case 1:
				// membership of a variable in a named list constant (not foldable)
				extra = Op("in", TBool, Var("i0", TInt), ConstRef("KBIGA", a))
			}
		} else {
			a, b := bigStrList(r, na), bigStrList(r, nb)
			extra = Op("overlap", TBool, ConstRef("KBIGC", a), ConstRef("KBIGD", b))
		}
		if tree.Ty == TBool {
			tree = Op([]string{"and", "or"}[r.Intn(2)], TBool, tree, extra)
		} else {
			tree = If(extra, tree, tree.Clone())
		}
		tree.Consts(cfg.Consts)
	}
	if r.Intn(2) == 0 {
		cfg.Costs = randomCosts(r, tree, r.Intn(4) == 0)
	}
	if r.Intn(5) == 0 {
		cfg.Events = 1 + r.Intn(2)
	}
	nilMaps := r.Intn(8) == 0
	mk := func() *eval.Config {
		if nilMaps {
			// a config literal as in the repository's own tests: only the maps that are needed
			c := &eval.Config{CompileOptions: map[eval.CompileOption]bool{eval.AllowUndefinedVariable: true}}
			if infix {
				c.CompileOptions[eval.InfixNotation] = true
			}
			c.OperatorMap = map[string]eval.Operator{}
			for n, op := range stdCustom {
				c.OperatorMap[n] = wrapCustom(op, nil)
			}
			c.ConstantMap = map[string]eval.Value{}
			for n, v := range cfg.Consts {
				c.ConstantMap[n] = copyVal(v)
			}
			return c
		}
		c := buildConfig(cfg, nil)
		// spare capacity in the stateless list: an append by Compile would be visible there
		so := make([]string, len(c.StatelessOperators), len(c.StatelessOperators)+4)
		copy(so, c.StatelessOperators)
		c.StatelessOperators = so
		return c
	}
	if nilMaps {
		w.Inc("nil_map_configs")
	}
	src := tree.Prefix()
	if infix {
		src = tree.Infix(r, r.Intn(2) == 0)
	}
	hasDirective := false
	if r.Intn(3) != 0 {
		src = c08Directive(r, w) + src
		hasDirective = true
	}
	if r.Intn(12) == 0 {
		// a source that does not compile: the config must stay untouched as well
		src = mutateSource(r, src, w)
	}
	binds := genBindings(r, tree, 3, 0.05)
	if l, ok := cfg.Consts["KBIGA"].([]int64); ok && len(l) > 0 {
		// probes that are members of the list constant (as first compiled)
		for i := range binds {
			if _, uses := binds[i].Vals["i0"]; uses && i != 1 {
				binds[i].Vals["i0"] = l[r.Intn(len(l))]
			}
		}
	}
	c := &c08Case{cc: mk(), mk: mk, src: src, tree: tree, binds: binds, nilMaps: nilMaps}
	c.desc = fmt.Sprintf("%s nil-maps=%v", cfg, nilMaps)
	if hasDirective || (!nilMaps && len(cfg.Costs) > 0 && len(cfg.VarNames) > 0) {
		w.Nontrivial(c.desc, src)
	}
	return c
}

type c08Compiled struct {
	err  string
	dump string
	outs []Outcome
}

// c08Compile: Compile bracketed by config snapshots. Returns nil if a violation was already reported.
func c08Compile(w *W, c *c08Case, cc *eval.Config, what string) *c08Compiled {
	before := configSnapshot(cc)
	e, co := compileGuard(cc, c.src)
	after := configSnapshot(cc)
	w.Evals++
	w.Inc("snapshots_compared")
	if before != after {
		w.Fail("compile-modified-callers-config", "Compile changed the caller's Config (%s)\nsource: %q\nconfig: %s\nbefore:\n%s\nafter:\n%s", what, firstN(c.src, 1500), c.desc, before, after)
		return nil
	}
	if co.Panic != nil {
		w.Fail("compile-panic/"+normPanic(co.Panic)+"@"+panicSite(co.Stack), "Compile panicked: %v\nsource: %q\nconfig: %s\n%s", co.Panic, firstN(c.src, 1500), c.desc, co.Stack)
		return nil
	}
	res := &c08Compiled{}
	if co.Err != nil {
		w.Inc("compile_errors_snapshotted")
		res.err = co.Err.Error()
		return res
	}
	res.dump, _ = dumpGuard(e)
	evMode := cc.CompileOptions[eval.ReportEvent] || cc.CompileOptions[eval.Debug]
	for _, b := range c.binds {
		o, _ := callExpr(e, CallEval, fetcherFor(b, nil), nil, evMode)
		w.Evals++
		res.outs = append(res.outs, o)
	}
	return res
}

func c08Same(a, b *c08Compiled) string {
	if a.err != b.err {
		return fmt.Sprintf("compile outcome differs: %q vs %q", a.err, b.err)
	}
	if a.dump != b.dump {
		return fmt.Sprintf("Dump differs:\n%s\nvs\n%s", oneLine(a.dump), oneLine(b.dump))
	}
	for i := range a.outs {
		if i < len(b.outs) && !outcomeEq(a.outs[i], b.outs[i]) {
			return fmt.Sprintf("result on binding %d differs: %s vs %s", i, a.outs[i], b.outs[i])
		}
	}
	return ""
}

func c08Run(w *W, idx int) {
	r := w.Rand(idx)
	// a small batch of cases; the first compilation of each is the reference
	n := 4
	cases := make([]*c08Case, n)
	first := make([]*c08Compiled, n)
	for i := range cases {
		cases[i] = c08Make(w, r, idx*n+i)
		first[i] = c08Compile(w, cases[i], cases[i].cc, "first compilation")
		if i == 0 {
			w.Sample("sources", fmt.Sprintf("%q under %s", firstN(cases[i].src, 250), cases[i].desc))
		}
	}
	// again, same config object
	for i, c := range cases {
		if first[i] == nil {
			continue
		}
		again := c08Compile(w, c, c.cc, "second compilation with the same Config object")
		w.Inc("repeat_compilations")
		if again != nil {
			if d := c08Same(first[i], again); d != "" {
				w.Fail("compile-not-deterministic/repeat", "compiling the same source with the same Config again gives a different program: %s\nsource: %q\nconfig: %s", d, firstN(c.src, 1500), c.desc)
			}
		}
	}
	// shuffled order relative to other compilations, equal-but-distinct config objects
	order := r.Perm(n * 2)
	for _, k := range order {
		i := k % n
		c := cases[i]
		if first[i] == nil {
			continue
		}
		cc := c.cc
		what := "shuffled order, same Config object"
		if k >= n {
			cc = c.mk()
			what = "equal Config built separately"
		}
		again := c08Compile(w, c, cc, what)
		w.Inc("shuffled_compilations")
		if again != nil {
			if d := c08Same(first[i], again); d != "" {
				w.Fail("compile-not-deterministic/order", "%s: a different program than the first compilation: %s\nsource: %q\nconfig: %s", what, d, firstN(c.src, 1500), c.desc)
			}
		}
	}
	c08Aliasing(w, r, cases[0])
	c08NilConfig(w, r)
	c08OtherConfigs(w, r)
	c08OtherNotation(w, r)
	c08OptionReuse(w, r, cases[0])
	// The caller edits its Config between two compilations (same object): the second compilation is a function of the
	// new contents, i.e. it gives what an equal Config that was never compiled with gives.
	for i, c := range cases {
		if first[i] == nil || c.nilMaps {
			continue
		}
		used, fresh := c.mk(), c.mk()
		if c08Compile(w, c, used, "compilation before the caller edits the Config") == nil {
			continue
		}
		seed := r.Int63()
		c08Edit(used, seed)
		c08Edit(fresh, seed)
		a := c08Compile(w, c, used, "compilation after the caller edited the Config")
		b := c08Compile(w, c, fresh, "equal Config that was never compiled with")
		w.Inc("edited_config_compilations")
		if a != nil && b != nil {
			if d := c08Same(b, a); d != "" {
				w.Fail("compile-not-deterministic/edited-config", "after the caller edited its Config (stateless list entries replaced in place, operator implementations exchanged, a constant, a cost or an optimization switch changed), Compile gives a different program than with an equal Config that was never used: %s\nsource: %q\nconfig: %s", d, firstN(c.src, 1500), c.desc)
			}
		}
	}
}

// c08Edit changes a Config in place the way a caller may between compilations; the same seed gives the same edit.
func c08Edit(cc *eval.Config, seed int64) {
	r := rand.New(rand.NewSource(seed))
	// stateless list: entries replaced in place by their undeclared twins and back (the length does not change)
	for i, n := range cc.StatelessOperators {
		if len(n) > 1 && r.Intn(2) == 0 {
			switch n[0] {
			case 's':
				if _, ok := cc.OperatorMap["c"+n[1:]]; ok {
					cc.StatelessOperators[i] = "c" + n[1:]
				}
			}
		}
	}
	// operator implementations exchanged between names of equal signature
	for _, pair := range [][2]string{{"si", "ci"}, {"sz", "cz"}, {"ss", "cs"}} {
		if r.Intn(2) == 0 {
			a, okA := cc.OperatorMap[pair[0]]
			_, okB := cc.OperatorMap[pair[1]]
			if okA && okB {
				// the stateless name now runs a function of the same shape with another result
				base := a
				cc.OperatorMap[pair[0]] = func(ctx *eval.Ctx, p []eval.Value) (eval.Value, error) {
					v, err := base(ctx, p)
					if err != nil {
						return v, err
					}
					switch x := v.(type) {
					case int64:
						return x + 1000, nil
					case string:
						return x + "!", nil
					}
					return v, nil
				}
			}
		}
	}
	// a cost entry changed / added, one optimization switch flipped
	if cc.CostsMap != nil && r.Intn(2) == 0 {
		names := make([]string, 0, len(cc.CostsMap))
		for n := range cc.CostsMap {
			names = append(names, n)
		}
		sort.Strings(names)
		if len(names) > 0 {
			cc.CostsMap[names[r.Intn(len(names))]] = float64(r.Intn(2000) - 500)
		}
		cc.CostsMap["variable"] = float64(r.Intn(50))
	}
	if r.Intn(3) == 0 {
		o := []eval.CompileOption{eval.ConstantFolding, eval.ReduceNesting, eval.FastEvaluation, eval.Reordering}[r.Intn(4)]
		cur, ok := cc.CompileOptions[o]
		cc.CompileOptions[o] = ok && !cur
	}
	// list constants refilled in place (same slice, same length, other contents)
	for _, n := range []string{"KBIGA", "KBIGB", "KBIGC", "KBIGD", "KIL", "KSL"} {
		if r.Intn(2) != 0 {
			continue
		}
		switch l := cc.ConstantMap[n].(type) {
		case []int64:
			for i := range l {
				l[i] += 1 + int64(i%2)
			}
		case []string:
			for i := range l {
				l[i] += "'"
			}
		}
	}
	if v, ok := cc.ConstantMap["KI"]; ok && r.Intn(2) == 0 {
		if x, isInt := v.(int64); isInt {
			cc.ConstantMap["KI"] = x + 1
		}
	}
}

// c08NilConfig: Compile(nil, src) is compilation with an empty config. A closed program (literals and built-in operators
// only) is compiled with a nil config before and after other nil-config compilations that carry directives (some of
// them failing); every time it must give the program an empty Config object built by the caller gives.
func c08NilConfig(w *W, r *rand.Rand) {
	g := &G{R: r, Aliases: true, Lists: true, Encodings: true, MaxArity: 4, Budget: 60, Fail: 0.05}
	tree := g.Root(2 + r.Intn(3))
	src := tree.Prefix()
	comp := func(cc *eval.Config, s string) *c08Compiled {
		e, co := compileGuard(cc, s)
		w.Evals++
		res := &c08Compiled{}
		if co.Panic != nil {
			res.err = fmt.Sprint("panic: ", co.Panic)
			return res
		}
		if co.Err != nil {
			res.err = co.Err.Error()
			return res
		}
		res.dump, _ = dumpGuard(e)
		o, _ := callExpr(e, CallEval, fetcherFor(Binding{}, nil), nil, false)
		res.outs = append(res.outs, o)
		return res
	}
	ref := comp(eval.NewConfig(), src)
	for round := 0; round < 3; round++ {
		got := comp(nil, src)
		w.Inc("nil_config_compilations")
		if d := c08Same(ref, got); d != "" {
			w.Fail("compile-not-deterministic/nil-config", "Compile(nil, src) gives a different program than Compile(NewConfig(), src) after %d other nil-config compilation(s) with directives: %s\nsource: %q", round, d, firstN(src, 1500))
			return
		}
		// an unrelated compilation with a directive, also with a nil config
		other := (&G{R: r, Aliases: true, MaxArity: 3, Budget: 20}).Root(2).Prefix()
		other = c08Directive(r, w) + other
		if r.Intn(4) == 0 {
			other = mutateSource(r, other, w)
		}
		comp(nil, other)
	}
}

// aliasing probes for CopyConfig / ExtendConf
func c08Aliasing(w *W, r *rand.Rand, c *c08Case) {
	mutate := func(x *eval.Config) {
		if x.ConstantMap != nil {
			x.ConstantMap["__marker"] = int64(1)
			for k := range x.ConstantMap {
				if k != "__marker" {
					x.ConstantMap[k] = "changed"
					break
				}
			}
		}
		if x.OperatorMap != nil {
			x.OperatorMap["__marker"] = func(*eval.Ctx, []eval.Value) (eval.Value, error) { return nil, nil }
		}
		if x.VariableKeyMap != nil {
			x.VariableKeyMap["__marker"] = 777
		}
		if x.CostsMap != nil {
			x.CostsMap["__marker"] = 1
		}
		if x.CompileOptions != nil {
			x.CompileOptions["__marker"] = true
			x.CompileOptions[eval.Reordering] = !x.CompileOptions[eval.Reordering]
		}
		if len(x.StatelessOperators) > 0 {
			x.StatelessOperators[0] = "__marker"
		}
		x.StatelessOperators = append(x.StatelessOperators, "__appended")
	}
	for _, how := range []string{"CopyConfig", "ExtendConf"} {
		for dir := 0; dir < 2; dir++ {
			src := c.mk()
			var dst *eval.Config
			if how == "CopyConfig" {
				dst = eval.CopyConfig(src)
				w.Inc("aliasing_probes_copyconfig")
			} else {
				dst = eval.NewConfig(eval.ExtendConf(src))
				w.Inc("aliasing_probes_extendconf")
			}
			w.Evals++
			a, b := src, dst
			if dir == 1 {
				a, b = dst, src
			}
			before := configSnapshot(b)
			mutate(a)
			after := configSnapshot(b)
			if before != after {
				w.Fail("config-copy-shares-state/"+how, "%s result shares mutable state with its source: changing one side (direction %d) shows in the other\nbefore:\n%s\nafter:\n%s", how, dir, before, after)
			}
		}
		// the copy has the same contents as the source
		src := c.mk()
		var dst *eval.Config
		if how == "CopyConfig" {
			dst = eval.CopyConfig(src)
		} else {
			dst = eval.NewConfig(eval.ExtendConf(src))
		}
		strip := func(s string) string {
			// addresses, nil-ness and capacity differ legitimately; compare contents
			var keep []string
			for _, l := range strings.Split(s, "\n") {
				if i := strings.Index(l, "):"); i >= 0 {
					l = l[:strings.Index(l, "(")] + l[i+1:]
				}
				keep = append(keep, l)
			}
			return strings.Join(keep, "\n")
		}
		_ = strip
		e1, o1 := compileGuard(src, c.src)
		e2, o2 := compileGuard(dst, c.src)
		if (o1.Err == nil) != (o2.Err == nil) {
			w.Fail("config-copy-differs/"+how, "%s result does not compile the same source like its origin: %v vs %v\nsource: %q", how, o1.Err, o2.Err, firstN(c.src, 1000))
		} else if o1.Err == nil && o1.Panic == nil && o2.Panic == nil {
			d1, _ := dumpGuard(e1)
			d2, _ := dumpGuard(e2)
			if d1 != d2 {
				w.Fail("config-copy-differs/"+how, "%s result compiles the same source to a different program\nsource: %q\n%s\nvs\n%s", how, firstN(c.src, 1000), oneLine(d1), oneLine(d2))
			}
		}
	}
}

// race phase: 16 goroutines compile a shuffled list over shared Configs
// c08Cold: the very first compilations of a process run concurrently (a server that compiles its rules in parallel at
// start-up): nothing in the library may be initialised lazily without synchronisation.
var c08Cold = true

func c08ColdStart(w *W) {
	srcs := []string{"(+ 1 2 3)", "(and (< 1 2) (= 3 3))", "(if (> 2 1) (* 2 3) 0)", "(in 2 (1 2 3))", "(version \"1.2.3\")", "(not (or false (!= 1 1)))"}
	got := make([][]string, 0)
	const goroutines = 32
	var wg sync.WaitGroup
	start := make(chan struct{})
	fails := make([]string, goroutines)
	for g := 0; g < goroutines; g++ {
		got = append(got, make([]string, len(srcs)))
	}
	for g := 0; g < goroutines; g++ {
		wg.Add(1)
		go func(g int) {
			defer wg.Done()
			<-start
			for k := range srcs {
				i := (k + g) % len(srcs)
				e, co := compileGuard(eval.NewConfig(), srcs[i])
				if co.Panic != nil || co.Err != nil {
					fails[g] = fmt.Sprintf("Compile(%s) gave %s", srcs[i], co)
					return
				}
				got[g][i], _ = dumpGuard(e)
			}
		}(g)
	}
	close(start)
	wg.Wait()
	w.Inc("cold_start_concurrent_compilations")
	for _, f := range fails {
		if f != "" {
			w.Fail("compile-not-deterministic/cold-start", "among the first, concurrent compilations of the process: %s", f)
			return
		}
	}
	// the same sources compiled afterwards, one at a time
	for i, src := range srcs {
		e, co := compileGuard(eval.NewConfig(), src)
		if co.Panic != nil || co.Err != nil {
			continue
		}
		want, _ := dumpGuard(e)
		for g := range got {
			if got[g][i] != want {
				w.Fail("compile-not-deterministic/cold-start", "among the first, concurrent compilations of the process Compile(%s) dumped as %q; compiled again afterwards it dumps as %q", src, got[g][i], want)
				return
			}
		}
	}
}

func c08Race(w *W, idx int) {
	if c08Cold {
		c08Cold = false
		c08ColdStart(w)
	}
	r := w.Rand(idx)
	n := 6
	cases := make([]*c08Case, n)
	first := make([]*c08Compiled, n)
	snaps := make([]string, n)
	for i := range cases {
		cases[i] = c08Make(w, r, idx*n+i)
		first[i] = c08Compile(w, cases[i], cases[i].cc, "first compilation")
		snaps[i] = configSnapshot(cases[i].cc)
	}
	goroutines := 16
	type gres struct {
		fails []string
		n     int64
	}
	results := make([]*gres, goroutines)
	var wg sync.WaitGroup
	seeds := make([]int64, goroutines)
	for g := range seeds {
		seeds[g] = r.Int63()
	}
	for g := 0; g < goroutines; g++ {
		res := &gres{}
		results[g] = res
		wg.Add(1)
		go func(g int) {
			defer wg.Done()
			gr := rand.New(rand.NewSource(seeds[g]))
			for k := 0; k < 12; k++ {
				i := gr.Intn(n)
				c := cases[i]
				if first[i] == nil {
					continue
				}
				e, co := compileGuard(c.cc, c.src)
				res.n++
				got := &c08Compiled{}
				switch {
				case co.Panic != nil:
					res.fails = append(res.fails, fmt.Sprintf("concurrent Compile panicked: %v\nsource: %q\n%s", co.Panic, firstN(c.src, 800), co.Stack))
					continue
				case co.Err != nil:
					got.err = co.Err.Error()
				default:
					got.dump, _ = dumpGuard(e)
					evMode := c.cc.CompileOptions[eval.ReportEvent] || c.cc.CompileOptions[eval.Debug]
					for _, b := range c.binds {
						o, _ := callExpr(e, CallEval, fetcherFor(b, nil), nil, evMode)
						got.outs = append(got.outs, o)
					}
				}
				if d := c08Same(first[i], got); d != "" {
					res.fails = append(res.fails, fmt.Sprintf("concurrent compilation gives a different program than the first compilation: %s\nsource: %q\nconfig: %s", d, firstN(c.src, 800), c.desc))
				}
			}
		}(g)
	}
	wg.Wait()
	w.Inc("race_concurrent_batches")
	for _, res := range results {
		w.Evals += res.n
		w.Count("race_concurrent_compilations", res.n)
		for _, f := range res.fails {
			w.Fail("compile-not-deterministic/concurrent", "%s", f)
		}
	}
	for i, c := range cases {
		if s := configSnapshot(c.cc); s != snaps[i] {
			w.Fail("compile-modified-callers-config", "concurrent Compile calls changed the shared Config\nsource: %q\nbefore:\n%s\nafter:\n%s", firstN(c.src, 800), snaps[i], s)
		}
	}
}

// c08OtherConfigs: what Compile makes of (config, source) does not depend on what has been registered in other,
// unrelated Config objects of the same process (operator names - also symbolic ones -, variables, constants).
func c08OtherConfigs(w *W, r *rand.Rand) {
	names := []string{"<>", "=~", "**", "<=>", "~", "@", "myop", "_op", "op.x", "Ünï", "=/=", "<<", ">>", "^", "~=", "?", ":=", "->", "<-", "|>", "$", "#", "++", "--", "%%", "<~", "~>", "!!", "??", "::"}
	name := names[r.Intn(len(names))]
	op := func(*eval.Ctx, []eval.Value) (eval.Value, error) { return true, nil }
	optimize := r.Intn(2) == 0
	mkA := func() *eval.Config {
		a := eval.NewConfig(eval.Optimizations(optimize))
		a.VariableKeyMap["i0"] = 1
		a.OperatorMap[name] = op // stored directly, the way a Config literal does
		return a
	}
	srcs := []string{fmt.Sprintf("(%s i0 2)", name), fmt.Sprintf("(and (%s i0 2) true)", name), fmt.Sprintf("(other_%d i0)", r.Intn(3)), "(+ i0 newvar)", "(= i0 NEWCONST)"}
	src := srcs[r.Intn(len(srcs))]
	comp := func(cc *eval.Config) string {
		e, co := compileGuard(cc, src)
		w.Evals++
		switch {
		case co.Panic != nil:
			return fmt.Sprint("panic: ", co.Panic)
		case co.Err != nil:
			return "error"
		}
		d, _ := dumpGuard(e)
		return "ok: " + d
	}
	before := comp(mkA())
	// an unrelated Config registers the same names through every registration entry point
	b := eval.NewConfig()
	_ = eval.RegisterOperator(b, name, op) // (only this case's name: later cases probe the others afresh)
	for i := 0; i < 3; i++ {
		_ = eval.RegisterOperator(b, fmt.Sprintf("other_%d", i), op)
	}
	eval.GetOrRegisterKey(b, "newvar")
	b.ConstantMap["NEWCONST"] = int64(1)
	eval.RegVarAndOp(map[string]interface{}{"newvar": 1, name: op})(b)
	compileGuard(b, src)
	after := comp(mkA())
	w.Inc("other_config_registration_probes")
	if before != after {
		w.Fail("compile-depends-on-other-configs", "Compile(config, %q) gave %q; after an unrelated Config registered operators/variables/constants of the same names it gives %q for an equal config", src, firstN(before, 300), firstN(after, 300))
	}
}

var c08FreshNames int

var c08AddrRe = regexp.MustCompile(`,cap=[0-9]+,@0x[0-9a-f]+`)

// c08OtherNotation: what Compile makes of (config, source) does not depend on whether the same text - the same words -
// was compiled before under a Config with the other notation (a service that keeps rules of both kinds). Every probe uses
// names this process has never seen: one text is compiled directly, its twin (other fresh names, same shape) after the
// other notation has seen it; the outcomes must be the same up to the names.
func c08OtherNotation(w *W, r *rand.Rand) {
	fresh := func() string {
		c08FreshNames++
		return fmt.Sprintf("account.flags.is_blocked_%d_x%d", w.Case, c08FreshNames)
	}
	shapes := []string{"!%s && b0", "b0 || !%s", "(!%s)", "!%s == b0", "(not !%s)", "(and !%s b0)", "-%s + 1", "(- %s 1)", "%s&&b0", "(%s)", "if(!%s, 1, 2)"}
	shape := shapes[r.Intn(len(shapes))]
	optimize := r.Intn(2) == 0
	mk := func(infix bool, name string) *eval.Config {
		c := eval.NewConfig(eval.Optimizations(optimize))
		c.VariableKeyMap["b0"] = 1
		c.VariableKeyMap[name] = 2
		if infix {
			c.CompileOptions[eval.InfixNotation] = true
		}
		return c
	}
	comp := func(infix bool, name string) string {
		src := fmt.Sprintf(shape, name)
		e, co := compileGuard(mk(infix, name), src)
		w.Evals++
		switch {
		case co.Panic != nil:
			return fmt.Sprint("panic: ", co.Panic)
		case co.Err != nil:
			return "error"
		}
		d, _ := dumpGuard(e)
		return "ok: " + strings.ReplaceAll(d, name, "NAME")
	}
	for _, infixFirst := range []bool{false, true} {
		a, b := fresh(), fresh()
		direct := comp(!infixFirst, a) // the notation under test, on words never seen before
		comp(infixFirst, b)            // the other notation sees the twin text first
		after := comp(!infixFirst, b)
		w.Inc("other_notation_probes")
		if direct != after {
			w.Fail("compile-depends-on-other-notation", "Compile of %q (infix=%v) gives %q when the text is new to the process, and %q after the same text was compiled under a Config with the other notation", fmt.Sprintf(shape, "NAME"), !infixFirst, firstN(direct, 300), firstN(after, 300))
		}
	}
}

// c08OptionReuse: an ExtendConf option is kept and applied again after its source Config was edited (a name registered, a
// constant added, a stateless name appended, a map field replaced as a whole). The property does not say whether the
// option reads its source when it is built or when it is applied, so both are accepted - but nothing in between: the
// derived Config equals either what a fresh ExtendConf of the edited source gives, or what the option gave before the
// edit. A mixture (some edits visible, others not) is a Config that no state of the source ever described.
func c08OptionReuse(w *W, r *rand.Rand, c *c08Case) {
	if c.nilMaps {
		return
	}
	base := c.mk()
	opt := eval.ExtendConf(base)
	var first, second, fresh string
	o := guard(func() (eval.Value, error) { first = configSnapshot(eval.NewConfig(opt)); return nil, nil })
	if o.Panic != nil {
		w.Fail("extendconf-panic", "NewConfig(ExtendConf(base)) panicked: %v", o.Panic)
		return
	}
	base.ConstantMap["LATE_CONST"] = int64(1)
	eval.GetOrRegisterKey(base, "late_var")
	base.StatelessOperators = append(base.StatelessOperators, "late_stateless")
	switch r.Intn(3) {
	case 0:
		base.CostsMap = map[string]float64{"late_cost": 2}
	case 1:
		nm := map[string]eval.Value{"ONLY_CONST": int64(2)}
		base.ConstantMap = nm
	}
	o = guard(func() (eval.Value, error) {
		second = configSnapshot(eval.NewConfig(opt))
		fresh = configSnapshot(eval.NewConfig(eval.ExtendConf(base)))
		return nil, nil
	})
	w.Evals += 3
	w.Inc("extendconf_option_reuse_probes")
	if o.Panic != nil {
		w.Fail("extendconf-panic", "NewConfig(ExtendConf(base)) panicked after base was edited: %v", o.Panic)
		return
	}
	// contents only: where the derived Config keeps its stateless list (capacity, address) is its own business
	norm := func(t string) string { return c08AddrRe.ReplaceAllString(t, "") }
	first, second, fresh = norm(first), norm(second), norm(fresh)
	if second != fresh && second != first {
		w.Fail("extendconf-option-reuse-inconsistent", "an ExtendConf option applied again after its source was edited gives a Config that is neither the edited source (what a fresh ExtendConf gives) nor the source as it was when the option was built\nreused option:\n%s\nfresh option:\n%s\nbefore the edit:\n%s", second, fresh, first)
	}
}
