package main

// C11 — variables read the value bound to their name under any key layout.

import (
	"fmt"
	"math"
	"math/rand"
	"reflect"
	"sort"
	"strings"
	"time"

	"github.com/onheap/eval"
)

func init() {
	register(&Prop{
		ID: "C11",
		Rule: "Registration histories: VariableKeyMap pre-populated with distinct keys drawn from {negative, 0, 1..10, 250..260, 32767, random int16} followed by 0-300 GetOrRegisterKey calls in shuffled order (bijection, stability and idempotence asserted after every call), or RegVarAndOp, or undefined-variable mode; " +
			"fetcher boundaries (max key 254/255/256, min key -1/0) so that NewCtxFromVars picks the slice-backed and the map-backed fetcher. Bindings use every supported Go type at its extremes (int, int8..int64, uint8..uint64 incl. values above MaxInt64, []int, []int32, []int64, []string, time.Time before/after 1970 with nanoseconds and zones, time.Duration, bool, string). " +
			"Probes: a weighted sum (+ (* w1 v1) (* w2 v2) ...) with pairwise distinct large weights identifies which value each variable position received; (ident v) returns the delivered value of every variable. Results must equal the oracle's normalisation and agree across all layouts of the same binding; optimizations off and on. " +
			"A case is non-trivial when the layout has a key < 0, = 0 or >= 255, or >= 3 registrations after a pre-populated map; distinct = distinct (layout, binding).",
		Assumptions: []string{
			"normalisation oracle written in the harness (int64 conversion with wrap-around, Unix seconds by independent calendar arithmetic, whole seconds for durations)",
			"negative durations with a fractional part are not generated (rounding direction unspecified)",
		},
		NumCases: func(tier string) int {
			if tier == "thorough" {
				return 400000
			}
			return 6000
		},
		Run: c11Run,
		Floors: func(m *Merged, tier string) []string {
			var u []string
			for _, c := range []string{"layout_negative_key", "layout_zero_key", "layout_maxkey_254", "layout_maxkey_255", "layout_maxkey_256", "layout_big_key", "layout_undefined_mode", "layout_regvarandop", "layout_prepopulated_then_regvarandop", "fetcher_slice", "fetcher_map", "registrations_checked", "weighted_sums", "ident_probes", "pair_probes", "bindings_with_unregistered_extras", "late_explicit_key_probes", "single_variable_programs", "rekeyed_name_probes", "keyword_like_variable_names"} {
				if m.C(c) == 0 {
					u = append(u, c+" = 0")
				}
			}
			for _, t := range []string{"int", "int8", "int16", "int32", "int64", "uint8", "uint16", "uint32", "uint64", "[]int", "[]int32", "[]int64", "[]string", "time.Time", "time.Duration", "bool", "string"} {
				if m.C("type_"+t) == 0 {
					u = append(u, "value type never bound: "+t)
				}
			}
			if len(u) > 6 {
				u = append(u[:6], fmt.Sprintf("... and %d more", len(u)-6))
			}
			return u
		},
	})
}

type c11Val struct {
	raw  interface{}
	norm interface{}
	typ  string
}

func c11IntValue(r *rand.Rand) c11Val {
	pick64 := func(vals ...int64) int64 { return vals[r.Intn(len(vals))] }
	switch r.Intn(9) {
	case 0:
		v := int(pick64(0, 1, -1, math.MaxInt64, math.MinInt64, 123456789))
		return c11Val{v, int64(v), "int"}
	case 1:
		v := int8(pick64(0, 1, -1, 127, -128, 100))
		return c11Val{v, int64(v), "int8"}
	case 2:
		v := int16(pick64(0, -1, 32767, -32768, 255, 256))
		return c11Val{v, int64(v), "int16"}
	case 3:
		v := int32(pick64(0, -1, math.MaxInt32, math.MinInt32, 65536))
		return c11Val{v, int64(v), "int32"}
	case 4:
		v := pick64(0, 1, -1, math.MaxInt64, math.MinInt64, 1<<40)
		return c11Val{v, v, "int64"}
	case 5:
		v := uint8(pick64(0, 1, 127, 128, 255))
		return c11Val{v, int64(v), "uint8"}
	case 6:
		v := uint16(pick64(0, 1, 32767, 32768, 65535))
		return c11Val{v, int64(v), "uint16"}
	case 7:
		v := uint32(pick64(0, 1, math.MaxInt32, math.MaxInt32+1, math.MaxUint32))
		return c11Val{v, int64(v), "uint32"}
	default:
		v := []uint64{0, 1, math.MaxInt64, math.MaxInt64 + 1, math.MaxUint64, 1 << 63}[r.Intn(6)]
		// above MaxInt64 the conversion wraps around
		return c11Val{v, int64(v), "uint64"}
	}
}

func c11TimeValue(r *rand.Rand) c11Val {
	if r.Intn(3) == 0 {
		// durations: whole seconds, or positive with a fractional part
		secs := []int64{0, 1, -1, 59, 3600, -86400, 1 << 31, 16777215, 16777216, 31535999, 315360000, 4294967295, 9000000000}[r.Intn(13)]
		d := time.Duration(secs) * time.Second
		want := secs
		if secs >= 0 && r.Intn(2) == 0 {
			// a positive fractional part, incl. one nanosecond short of / past a second boundary
			d += []time.Duration{time.Duration(1+r.Intn(999)) * time.Millisecond, time.Nanosecond, 999999999 * time.Nanosecond, 999999000 * time.Nanosecond}[r.Intn(4)]
		}
		return c11Val{d, want, "time.Duration"}
	}
	y := []int{1, 1600, 1899, 1969, 1970, 1971, 2000, 2021, 2038, 9999}[r.Intn(10)]
	mo, d := 1+r.Intn(12), 1+r.Intn(28)
	h, mi, s := r.Intn(24), r.Intn(60), r.Intn(60)
	ns := []int{0, 1, 500000000, 999999999}[r.Intn(4)]
	off := []int{0, 0, 3600, -19800, 50400}[r.Intn(5)]
	loc := time.UTC
	if off != 0 {
		loc = time.FixedZone("z", off)
	}
	t := time.Date(y, time.Month(mo), d, h, mi, s, ns, loc)
	want := daysFromCivil(int64(y), int64(mo), int64(d))*86400 + int64(h)*3600 + int64(mi)*60 + int64(s) - int64(off)
	return c11Val{t, want, "time.Time"}
}

// c11ForeignValue: values of types the normaliser does not know. A variable bound to one evaluates to that very value
// (a callback, a record, a handle passed on to a registered operator), under every key layout and fetcher kind.
type c11Record struct {
	ID   int
	Tags []string
}

var c11Foreign = []struct {
	typ string
	val interface{}
}{
	{"foreign-eval.Operator", eval.Operator(func(*eval.Ctx, []eval.Value) (eval.Value, error) { return int64(1), nil })},
	{"foreign-operator-shaped-func", func(*eval.Ctx, []eval.Value) (eval.Value, error) { return int64(2), nil }},
	{"foreign-func", func() int { return 3 }},
	{"foreign-struct", c11Record{ID: 7, Tags: []string{"a"}}},
	{"foreign-pointer", &c11Record{ID: 8}},
	{"foreign-map", map[string]int{"k": 1}},
	{"foreign-float64", 1.5},
	{"foreign-slice-of-interface", []interface{}{int64(1), "x"}},
	{"foreign-chan", make(chan int)},
}

// sameValue: valEq for the engine's own types, identity for reference-like foreign values, == for comparable ones
func sameValue(a, b interface{}) (same bool) {
	defer func() {
		if recover() != nil {
			same = false
		}
	}()
	if a == nil || b == nil {
		return a == nil && b == nil
	}
	va, vb := reflect.ValueOf(a), reflect.ValueOf(b)
	if va.Type() != vb.Type() {
		return false
	}
	switch va.Kind() {
	case reflect.Func, reflect.Map, reflect.Chan, reflect.Ptr, reflect.UnsafePointer:
		return va.Pointer() == vb.Pointer()
	case reflect.Slice:
		if valEq(a, b) {
			return true
		}
		return va.Len() == vb.Len() && (va.Len() == 0 || va.Pointer() == vb.Pointer())
	}
	if va.Type().Comparable() {
		return a == b
	}
	return reflect.DeepEqual(a, b)
}

func c11OtherValue(r *rand.Rand) c11Val {
	if r.Intn(5) == 0 {
		f := c11Foreign[r.Intn(len(c11Foreign))]
		return c11Val{f.val, f.val, f.typ}
	}
	switch r.Intn(7) {
	case 0:
		v := r.Intn(2) == 0
		return c11Val{v, v, "bool"}
	case 1:
		v := []string{"", "a", "x y", "λ"}[r.Intn(4)]
		return c11Val{v, v, "string"}
	case 2:
		v := []int{0, -1, math.MaxInt64, math.MinInt64, 7}[:1+r.Intn(5)]
		n := make([]int64, len(v))
		for i, x := range v {
			n[i] = int64(x)
		}
		return c11Val{v, n, "[]int"}
	case 3:
		v := []int32{0, -1, math.MaxInt32, math.MinInt32, 9}[:1+r.Intn(5)]
		n := make([]int64, len(v))
		for i, x := range v {
			n[i] = int64(x)
		}
		return c11Val{v, n, "[]int32"}
	case 4:
		v := []int64{math.MaxInt64, math.MinInt64, 0}[:1+r.Intn(3)]
		return c11Val{v, append([]int64{}, v...), "[]int64"}
	case 5:
		v := []string{"a", "", "b c"}[:1+r.Intn(3)]
		return c11Val{v, append([]string{}, v...), "[]string"}
	default:
		return c11TimeValue(r)
	}
}

var c11KeyPool = []int{-32768, -300, -2, -1, 0, 1, 2, 3, 4, 5, 6, 7, 8, 9, 10, 100, 250, 251, 252, 253, 254, 255, 256, 257, 258, 259, 260, 1000, 32766, 32767}

func c11CheckMap(w *W, before map[string]eval.VariableKey, cc *eval.Config, name string, got eval.VariableKey, history string) bool {
	// existing assignments never change
	for n, k := range before {
		if cc.VariableKeyMap[n] != k {
			w.Fail("registration/changed-existing-assignment", "registering %q changed the key of %q from %d to %d\nhistory: %s", name, n, k, cc.VariableKeyMap[n], history)
			return false
		}
	}
	if k, ok := before[name]; ok && k != got {
		w.Fail("registration/not-idempotent", "GetOrRegisterKey(%q) returned %d but the name already had key %d\nhistory: %s", name, got, k, history)
		return false
	}
	if cc.VariableKeyMap[name] != got {
		w.Fail("registration/returned-key-not-stored", "GetOrRegisterKey(%q) returned %d but the map holds %d", name, got, cc.VariableKeyMap[name])
		return false
	}
	// no key is owned by two names
	owner := map[eval.VariableKey]string{}
	for n, k := range cc.VariableKeyMap {
		if o, dup := owner[k]; dup {
			w.Fail("registration/key-assigned-twice", "key %d is assigned to both %q and %q after registering %q\nhistory: %s", k, o, n, name, history)
			return false
		}
		owner[k] = n
	}
	return true
}

func c11Run(w *W, idx int) {
	r := w.Rand(idx)
	// the binding: 2-7 integer-valued variables (weighted sum) + 0-4 other variables
	nInt := 2 + r.Intn(6)
	type vr struct {
		name string
		val  c11Val
	}
	var intVars, otherVars []vr
	for i := 0; i < nInt; i++ {
		v := c11IntValue(r)
		if r.Intn(6) == 0 {
			v = c11TimeValue(r)
		}
		name := fmt.Sprintf("v%d", i)
		if r.Intn(4) == 0 {
			// names that are not reserved: other letter cases of the literals, keywords and operator names, the
			// engine's own marker spellings, dotted and underscored names
			special := []string{"True", "FALSE", "tRuE", "False", "If", "IF", "AND", "Or", "Not", "DNE", "fi", "Fi", "Mod", "IN", "user.level", "a.b.c", "_x", "x_1", "true1", "iff", "é.x", "größe.mm", "日本.abcd", "größe.cm2", "ñ", "π.r"}
			name = special[(i*7+r.Intn(len(special)))%len(special)]
			for _, o := range intVars {
				if o.name == name {
					name = fmt.Sprintf("v%d", i)
				}
			}
			if name[0] != 'v' {
				w.Inc("keyword_like_variable_names")
			}
		}
		intVars = append(intVars, vr{name, v})
	}
	for i := 0; i < r.Intn(5); i++ {
		otherVars = append(otherVars, vr{fmt.Sprintf("o%d", i), c11OtherValue(r)})
	}
	vals := map[string]interface{}{}
	for _, v := range append(append([]vr{}, intVars...), otherVars...) {
		vals[v.name] = v.val.raw
		w.Inc("type_" + v.val.typ)
	}
	// entries for names no layout registers (and no expression references): they must not disturb anything
	nExtra := []int{0, 0, 3, 25}[r.Intn(4)]
	for i := 0; i < nExtra; i++ {
		vals[fmt.Sprintf("unregistered_extra_%d", i)] = []interface{}{int64(1000 + i), "x", true, int(7)}[r.Intn(4)]
	}
	if nExtra > 0 {
		w.Inc("bindings_with_unregistered_extras")
	}
	// the exported normalisers agree with the oracle
	tvm := eval.ToValueMap(vals)
	for _, v := range append(append([]vr{}, intVars...), otherVars...) {
		w.Inc("normaliser_probes")
		if got, ok := tvm[v.name]; !ok || !sameValue(got, v.val.norm) {
			w.Fail("wrong-normalisation/ToValueMap/"+v.val.typ, "ToValueMap gives %s for %s value %v, expected %s", valTextAny(got), v.val.typ, v.val.raw, valText(v.val.norm))
		}
		if got := eval.UnifyType(v.val.raw); !sameValue(got, v.val.norm) {
			w.Fail("wrong-normalisation/UnifyType/"+v.val.typ, "UnifyType gives %s for %s value %v, expected %s", valTextAny(got), v.val.typ, v.val.raw, valText(v.val.norm))
		}
	}
	// the probe expressions
	var terms []string
	var wantSum int64
	order := r.Perm(len(intVars))
	for pos, i := range order {
		wgt := int64(1000003)*int64(pos+1)*int64(pos+7) + int64(pos)
		terms = append(terms, fmt.Sprintf("(* %d %s)", wgt, intVars[i].name))
		wantSum += wgt * intVars[i].val.norm.(int64)
	}
	sumSrc := "(+ " + strings.Join(terms, " ") + ")"
	if len(terms) == 1 {
		sumSrc = "(+ 0 " + terms[0] + ")"
	}

	ident := func(_ *eval.Ctx, p []eval.Value) (eval.Value, error) { return p[0], nil }

	// layouts of the same binding
	nLayouts := 4
	for l := 0; l < nLayouts; l++ {
		cc := eval.NewConfig()
		cc.OperatorMap["ident"] = ident
		var hist []string
		nontrivial := false
		funcsAreVariables := true
		kind := (idx + l) % 6
		regs := 0
		switch kind {
		case 0:
			// undefined-variable mode: no registration at all
			cc.CompileOptions[eval.AllowUndefinedVariable] = true
			hist = append(hist, "undefined-variable mode")
			w.Inc("layout_undefined_mode")
		case 1, 5:
			if kind == 5 {
				// a map pre-populated with sparse explicit keys (some for names of the binding, some for others), then RegVarAndOp
				names := make([]string, 0, len(vals)+4)
				for n := range vals {
					if !strings.HasPrefix(n, "unregistered_extra_") {
						names = append(names, n)
					}
				}
				sort.Strings(names)
				names = append(names, "f0", "f1", "f2", "f3")
				r.Shuffle(len(names), func(i, j int) { names[i], names[j] = names[j], names[i] })
				keys := []int{0, 1, 2, 3, 4, 5, 6, 7, 8, 9, 10, 11, 12, 250, 255, 256}
				r.Shuffle(len(keys), func(i, j int) { keys[i], keys[j] = keys[j], keys[i] })
				pre := 1 + r.Intn(5)
				for i := 0; i < pre && i < len(names); i++ {
					cc.VariableKeyMap[names[i]] = eval.VariableKey(keys[i])
					hist = append(hist, fmt.Sprintf("%s=%d", names[i], keys[i]))
				}
				w.Inc("layout_prepopulated_then_regvarandop")
				nontrivial = true
			}
			before := map[string]eval.VariableKey{}
			for k, v := range cc.VariableKeyMap {
				before[k] = v
			}
			realVals := map[string]interface{}{}
			for n, v := range vals {
				if v != nil && reflect.TypeOf(v).Kind() == reflect.Func {
					// RegVarAndOp registers operator-shaped functions as operators: such a name is a variable only in the other layouts
					funcsAreVariables = false
					continue
				}
				if !strings.HasPrefix(n, "unregistered_extra_") {
					realVals[n] = v
				}
			}
			eval.RegVarAndOp(realVals)(cc)
			hist = append(hist, "RegVarAndOp(vals)")
			w.Inc("layout_regvarandop")
			regs = len(realVals)
			for n := range realVals {
				if !c11CheckMap(w, before, cc, n, cc.VariableKeyMap[n], strings.Join(hist, " ")) {
					return
				}
			}
		default:
			// pre-populated map with distinct keys, then registrations in shuffled order
			names := make([]string, 0, len(vals))
			for n := range vals {
				if !strings.HasPrefix(n, "unregistered_extra_") {
					names = append(names, n)
				}
			}
			sort.Strings(names)
			filler := r.Intn(4)
			switch r.Intn(6) {
			case 0:
				filler = 250 + r.Intn(12)
			case 1:
				filler = r.Intn(301)
			}
			for i := 0; i < filler; i++ {
				names = append(names, fmt.Sprintf("f%d", i))
			}
			r.Shuffle(len(names), func(i, j int) { names[i], names[j] = names[j], names[i] })
			pre := r.Intn(minInt(len(names), 6) + 1)
			keys := append([]int{}, c11KeyPool...)
			if kind == 3 {
				// boundary layouts: keys right below / at / above the slice fetcher limit
				keys = []int{0, 1, 2, 253, 254, 255, 256}[r.Intn(3):]
			}
			r.Shuffle(len(keys), func(i, j int) { keys[i], keys[j] = keys[j], keys[i] })
			if kind == 4 {
				for i := range keys {
					keys[i] = r.Intn(65536) - 32768
				}
				sort.Ints(keys)
				// distinct
				d := keys[:0]
				for i, k := range keys {
					if i == 0 || k != keys[i-1] {
						d = append(d, k)
					}
				}
				keys = d
				r.Shuffle(len(keys), func(i, j int) { keys[i], keys[j] = keys[j], keys[i] })
			}
			for i := 0; i < pre && i < len(keys); i++ {
				cc.VariableKeyMap[names[i]] = eval.VariableKey(keys[i])
				hist = append(hist, fmt.Sprintf("%s=%d", names[i], keys[i]))
			}
			hist = append(hist, "|")
			for _, n := range names {
				before := map[string]eval.VariableKey{}
				for k, v := range cc.VariableKeyMap {
					before[k] = v
				}
				var got eval.VariableKey
				o := guard(func() (eval.Value, error) { got = eval.GetOrRegisterKey(cc, n); return nil, nil })
				w.Evals++
				w.Inc("registrations_checked")
				if len(hist) < 60 {
					hist = append(hist, fmt.Sprintf("reg(%s)->%d", n, got))
				}
				if o.Panic != nil {
					w.Fail("registration/panic-"+normPanic(o.Panic), "GetOrRegisterKey(%q) panicked: %v\nhistory: %s", n, o.Panic, strings.Join(hist, " "))
					return
				}
				if !c11CheckMap(w, before, cc, n, got, strings.Join(hist, " ")) {
					return
				}
				if _, had := before[n]; !had {
					regs++
				}
				// idempotence: asking again gives the same key
				if again := eval.GetOrRegisterKey(cc, n); again != got {
					w.Fail("registration/not-idempotent", "GetOrRegisterKey(%q) returned %d and then %d", n, got, again)
					return
				}
			}
			if pre > 0 && regs >= 3 {
				nontrivial = true
			}
		}
		minK, maxK := math.MaxInt32, math.MinInt32
		for _, k := range cc.VariableKeyMap {
			if int(k) < minK {
				minK = int(k)
			}
			if int(k) > maxK {
				maxK = int(k)
			}
		}
		if len(cc.VariableKeyMap) > 0 {
			switch {
			case minK < 0:
				w.Inc("layout_negative_key")
				nontrivial = true
			case minK == 0:
				w.Inc("layout_zero_key")
				nontrivial = true
			}
			switch {
			case maxK == 254:
				w.Inc("layout_maxkey_254")
			case maxK == 255:
				w.Inc("layout_maxkey_255")
				nontrivial = true
			case maxK == 256:
				w.Inc("layout_maxkey_256")
				nontrivial = true
			case maxK > 256:
				w.Inc("layout_big_key")
				nontrivial = true
			}
		}
		ctxProbe := eval.NewCtxFromVars(cc, vals)
		switch ctxProbe.VariableFetcher.(type) {
		case eval.SliceVarFetcher:
			w.Inc("fetcher_slice")
		case eval.MapVarFetcher:
			w.Inc("fetcher_map")
		}
		layoutDesc := fmt.Sprintf("layout kind %d, keys min=%d max=%d, %d names; history: %s", kind, minK, maxK, len(cc.VariableKeyMap), firstN(strings.Join(hist, " "), 1500))
		if nontrivial {
			w.Nontrivial(layoutDesc, fmt.Sprint(vals))
		}
		if l == 0 {
			w.Sample(fmt.Sprintf("layout-kind-%d", kind), fmt.Sprintf("%s ; %s", sumSrc, firstN(layoutDesc, 300)))
		}
		run := func(src string, optimize bool) Outcome {
			c2 := eval.CopyConfig(cc)
			eval.Optimizations(optimize)(c2)
			e, co := compileGuard(c2, src)
			w.Evals++
			if co.Panic != nil {
				return co
			}
			if co.Err != nil {
				return Outcome{Err: fmt.Errorf("compile: %w", co.Err)}
			}
			o := guard(func() (eval.Value, error) { return e.Eval(eval.NewCtxFromVars(c2, vals)) })
			w.Evals++
			return o
		}
		// two different variables as the two operands of one operator (every ordered neighbour pair)
		for pi := 0; pi+1 < len(intVars); pi++ {
			a, b := intVars[pi], intVars[pi+1]
			if pi%2 == 1 {
				a, b = b, a
			}
			src := fmt.Sprintf("(- %s %s)", a.name, b.name)
			want := a.val.norm.(int64) - b.val.norm.(int64)
			for _, optimize := range []bool{false, true} {
				o := run(src, optimize)
				w.Inc("pair_probes")
				if o.Panic != nil || o.Err != nil || !valEq(o.V, want) {
					w.Fail("wrong-value-delivered/pair", "%s = %s, expected %d (optimize=%v): the two variables did not both receive the values bound to their names\nbinding: %s\n%s", src, o, want, optimize, c11Binding(vals), layoutDesc)
				}
			}
		}
		for _, optimize := range []bool{false, true} {
			o := run(sumSrc, optimize)
			w.Inc("weighted_sums")
			if o.Panic != nil || o.Err != nil || !valEq(o.V, wantSum) {
				w.Fail("wrong-value-delivered/weighted-sum", "%s = %s, expected %d (optimize=%v): some variable did not receive the value bound to its name\nbinding: %s\n%s", sumSrc, o, wantSum, optimize, c11Binding(vals), layoutDesc)
			}
			for _, v := range append(append([]vr{}, intVars...), otherVars...) {
				if optimize && r.Intn(2) == 0 {
					continue
				}
				if !funcsAreVariables && reflect.TypeOf(v.val.raw).Kind() == reflect.Func {
					continue
				}
				src := fmt.Sprintf("(ident %s)", v.name)
				o := run(src, optimize)
				w.Inc("ident_probes")
				if strings.HasPrefix(v.val.typ, "foreign-") {
					w.Inc("ident_probes_foreign_values")
				}
				if o.Panic != nil || o.Err != nil || !sameValue(o.V, v.val.norm) {
					w.Fail("wrong-value-delivered/"+v.val.typ, "%s = %s, expected %s (bound %s value %v, optimize=%v)\n%s", src, o, valText(v.val.norm), v.val.typ, v.val.raw, optimize, layoutDesc)
				}
			}
		}
		// Undefined-variable mode, names registered later: a rule compiled while its variables were still unknown keeps
		// reading them by name after they have been registered and a context was built from the (now complete) Config.
		if kind == 0 {
			c2 := eval.CopyConfig(cc)
			eOld, co := compileGuard(c2, sumSrc)
			w.Evals++
			if co.Panic == nil && co.Err == nil {
				names := make([]string, 0, len(vals))
				for n := range vals {
					names = append(names, n)
				}
				sort.Strings(names)
				if r.Intn(2) == 0 {
					for _, n := range names {
						eval.GetOrRegisterKey(c2, n)
					}
				} else {
					realVals := map[string]interface{}{}
					for n, v := range vals {
						if v == nil || reflect.TypeOf(v).Kind() != reflect.Func {
							realVals[n] = v
						}
					}
					eval.RegVarAndOp(realVals)(c2)
				}
				o := guard(func() (eval.Value, error) { return eOld.Eval(eval.NewCtxFromVars(c2, vals)) })
				w.Evals++
				w.Inc("compiled_before_registration_probes")
				if o.Panic != nil || o.Err != nil || !valEq(o.V, wantSum) {
					w.Fail("wrong-value-delivered/compiled-before-registration", "%s = %s, expected %d: the expression was compiled in undefined-variable mode, its variables were registered afterwards and the context built from the Config after that\nbinding: %s", sumSrc, o, wantSum, c11Binding(vals))
				}
				avail := guard(func() (eval.Value, error) { return eOld.TryEval(eval.NewCtxFromVars(c2, vals)) })
				if avail.Panic != nil || avail.Err != nil || !valEq(avail.V, wantSum) {
					w.Fail("wrong-value-delivered/compiled-before-registration", "TryEval of %s = %s, expected %d (every variable bound): compiled in undefined-variable mode, variables registered afterwards\nbinding: %s", sumSrc, avail, wantSum, c11Binding(vals))
				}
			}
		}
		// a whole program that is one variable (possible in infix notation only), through Compile + Eval and through the
		// one-shot eval.Eval helper
		for _, v := range append(append([]vr{}, intVars...), otherVars...) {
			if r.Intn(3) != 0 || strings.HasPrefix(v.val.typ, "foreign-") {
				continue
			}
			for _, src := range []string{v.name, "(" + v.name + ")"} {
				c2 := eval.CopyConfig(cc)
				c2.CompileOptions[eval.InfixNotation] = true
				e, co := compileGuard(c2, src)
				w.Evals++
				w.Inc("single_variable_programs")
				if co.Panic != nil || co.Err != nil {
					w.Fail("single-variable-program/compile", "infix program %q: %s\n%s", src, co, layoutDesc)
					continue
				}
				o := guard(func() (eval.Value, error) { return e.Eval(eval.NewCtxFromVars(c2, vals)) })
				if o.Panic != nil || o.Err != nil || !valEq(o.V, v.val.norm) {
					w.Fail("wrong-value-delivered/single-variable-program", "infix program %q = %s, expected %s (bound %s value %v)\n%s", src, o, valText(v.val.norm), v.val.typ, v.val.raw, layoutDesc)
				}
				o2 := guard(func() (eval.Value, error) {
					return eval.Eval(src, vals, eval.EnableInfixNotation, eval.RegVarAndOp(vals))
				})
				w.Evals++
				if o2.Panic != nil || o2.Err != nil || !valEq(o2.V, v.val.norm) {
					w.Fail("wrong-value-delivered/one-shot-eval", "eval.Eval(%q, vals, EnableInfixNotation, RegVarAndOp(vals)) = %s, expected %s (bound %s value %v)", src, o2, valText(v.val.norm), v.val.typ, v.val.raw)
				}
			}
		}
		// Late registration with an explicit key: VariableKeyMap is a public map, so a name can be added by a plain map
		// write after contexts have already been created from this Config (ctxProbe above). Contexts created afterwards
		// must serve the new name as well - both fetcher kinds, keys above the old maximum, below the old minimum, across 255.
		if len(cc.VariableKeyMap) > 0 && len(intVars) > 0 {
			used := map[eval.VariableKey]bool{}
			for _, k := range cc.VariableKeyMap {
				used[k] = true
			}
			cands := []int{maxK + 1, maxK + 40, minK - 1, 255, 256, 300}
			key := -40000
			for _, c := range cands[r.Intn(len(cands)):] {
				if c > -30000 && c < 32000 && !used[eval.VariableKey(c)] {
					key = c
					break
				}
			}
			if key != -40000 {
				const late = "late_explicit_key"
				cc.VariableKeyMap[late] = eval.VariableKey(key)
				lateVal := int64(r.Intn(1000) + 7)
				vals2 := map[string]interface{}{late: lateVal}
				for k, v := range vals {
					vals2[k] = v
				}
				a := intVars[r.Intn(len(intVars))]
				for _, src := range []string{fmt.Sprintf("(ident %s)", late), fmt.Sprintf("(- %s %s)", late, a.name)} {
					want := lateVal
					if src[1] == '-' {
						want = lateVal - a.val.norm.(int64)
					}
					e, co := compileGuard(cc, src)
					w.Evals++
					w.Inc("late_explicit_key_probes")
					if co.Panic != nil || co.Err != nil {
						w.Fail("late-explicit-key/compile", "Compile(%s) gave %s after %q was added with explicit key %d\n%s", src, co, late, key, layoutDesc)
						continue
					}
					o := guard(func() (eval.Value, error) { return e.Eval(eval.NewCtxFromVars(cc, vals2)) })
					w.Evals++
					if o.Panic != nil || o.Err != nil || !valEq(o.V, want) {
						w.Fail("wrong-value-delivered/late-explicit-key", "%s = %s, expected %d: %q was added to VariableKeyMap with explicit key %d after a context had been created from the Config (old key range %d..%d)\n%s", src, o, want, late, key, minK, maxK, layoutDesc)
					}
				}
				delete(cc.VariableKeyMap, late)
			}
			// ... and an existing name moved to another key (the number of registered names does not change)
			a := intVars[r.Intn(len(intVars))]
			oldKey := cc.VariableKeyMap[a.name]
			newKey := -40000
			for _, c := range []int{maxK + 7, minK - 3, 300, -3, 255, 256}[r.Intn(6):] {
				if c > -30000 && c < 32000 && !used[eval.VariableKey(c)] {
					newKey = c
					break
				}
			}
			if newKey != -40000 {
				eval.NewCtxFromVars(cc, vals) // a context with the old layout exists
				cc.VariableKeyMap[a.name] = eval.VariableKey(newKey)
				src := fmt.Sprintf("(ident %s)", a.name)
				e, co := compileGuard(cc, src)
				w.Evals++
				w.Inc("rekeyed_name_probes")
				if co.Panic != nil || co.Err != nil {
					w.Fail("late-explicit-key/compile", "Compile(%s) gave %s after %q was moved from key %d to %d\n%s", src, co, a.name, oldKey, newKey, layoutDesc)
				} else {
					o := guard(func() (eval.Value, error) { return e.Eval(eval.NewCtxFromVars(cc, vals)) })
					w.Evals++
					if o.Panic != nil || o.Err != nil || !valEq(o.V, a.val.norm) {
						w.Fail("wrong-value-delivered/rekeyed-name", "%s = %s, expected %s: %q was moved from key %d to key %d after a context had been created from the Config (old key range %d..%d)\n%s", src, o, valText(a.val.norm), a.name, oldKey, newKey, minK, maxK, layoutDesc)
					}
					// a variable the binding leaves out, under the new layout: an error, never a panic
					partial := map[string]interface{}{}
					for k, v := range vals {
						if k != a.name {
							partial[k] = v
						}
					}
					o2 := guard(func() (eval.Value, error) { return e.Eval(eval.NewCtxFromVars(cc, partial)) })
					if o2.Panic != nil {
						w.Fail("panic/"+normPanic(o2.Panic)+"@"+panicSite(o2.Stack), "Eval panicked for an unbound re-keyed variable: %v\n%s", o2.Panic, layoutDesc)
					}
				}
				cc.VariableKeyMap[a.name] = oldKey
			}
		}
	}
}

func c11Binding(vals map[string]interface{}) string {
	var s []string
	for k, v := range vals {
		s = append(s, fmt.Sprintf("%s=%T(%v)", k, v, v))
	}
	sort.Strings(s)
	return strings.Join(s, " ")
}
