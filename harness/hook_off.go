//go:build !verif

package main

import "github.com/onheap/eval"

// Degraded mode: the repository was built without the verif hooks (or they no
// longer compile). Hook-derived assertions are "not evaluated"; the immutability
// witness falls back to Dump + DumpTable text.

const hooksCompiled = false

func installHooks() {}

func progSnapshot(e *eval.Expr) (string, int16) {
	return eval.Dump(e) + "\n" + eval.DumpTable(e, false), 0
}

func progShape(e *eval.Expr) uint64 { return 0 }

func progSize(e *eval.Expr) int { return -1 }
