package main

// C09 — capacity limits are enforced at compile time, never by overflow.

import (
	"fmt"

	"github.com/onheap/eval"
)

type c09Spec struct {
	name   string
	build  func() *Node
	expect int // 0: must compile and evaluate to the reference value; 1: must be rejected; 2: either, never panic/wrong value
	heavy  bool
	events []int
}

var c09Cache = map[string][]c09Spec{}

func init() {
	register(&Prop{
		ID: "C09",
		Rule: "Enumerated boundary grid: operand counts {0,1,2,3,126,127,128,129,200,255,256,257} for arithmetic/and/or/eq/xor/registered operators at the root and nested at depth 1-3 in first/middle/last position and in if branches, " +
			"directly and produced by flattening nested and/or groups (k+m around 127/255, ReduceNesting on/off); node counts 16382..16386 and 32765..32769 (with/without if, two-leaf blocks) under ReportEvent, Debug and neither; " +
			"stack depth ladders 5..18,30,100,1000 (flat and right-nested; peak element constant/variable/zero-argument operator/two-leaf operator/if) across the 8/16/size allocation classes; all 16 optimization subsets; Eval and TryEval. " +
			"Each program must be rejected with an error or evaluate to the reference value (which of the two is required is fixed by the limits in the property); the step hook asserts the allocated stack suffices, the recorded maximum bounds use, and the program is addressable by int16. " +
			"A program is non-trivial when it is within +-2 of a limit or stack class boundary; distinct = distinct (program name, subset, event mode).",
		Assumptions: []string{
			"reference interpreter ref.go gives the expected value of every grid program",
			"event-mode programs between 16384 and 32767 source nodes may be accepted or rejected (how many event nodes are added is the engine's business); <=16383 must be accepted, >32767 rejected, and whatever is accepted must evaluate correctly and stay int16-addressable (hook)",
			"an and/or whose flattened operand count exceeds 127 may be rejected or left unflattened; never evaluated wrongly",
		},
		NumCases: func(tier string) int { return len(c09Specs(tier)) },
		Run:      c09Run,
		Watchdog: 300, // the largest grid programs take tens of seconds under 48 configurations
		Floors: func(m *Merged, tier string) []string {
			var u []string
			if m.C("specs_run") < int64(len(c09Specs(tier))) {
				u = append(u, fmt.Sprintf("only %d of %d grid programs ran", m.C("specs_run"), len(c09Specs(tier))))
			}
			for _, c := range []string{"rejected_as_required", "accepted_as_required", "events_accepted", "events_rejected"} {
				if m.C(c) == 0 {
					u = append(u, c+" = 0")
				}
			}
			return u
		},
		Extra: func(m *Merged, tier string) map[string]interface{} {
			return map[string]interface{}{"exhaustive_subspaces": []string{"the boundary grid listed in 'rule' is finite and was enumerated completely"}}
		},
	})
}

// nary builds (op x x x ...) with n operands produced by leaf(i).
func nary(op string, ty Ty, n int, leaf func(i int) *Node) *Node {
	ch := make([]*Node, n)
	for i := range ch {
		ch[i] = leaf(i)
	}
	return Op(op, ty, ch...)
}

func one(int) *Node    { return Lit(int64(1)) }
func vone(int) *Node   { return Var("i0", TInt) } // bound to 1
func tru(int) *Node    { return Lit(true) }
func vtru(int) *Node   { return Var("b0", TBool) } // bound to true
func vfls(i int) *Node { return Var("b1", TBool) } // bound to false

// sumTreeNode: a sum with exactly n nodes; leaves from leaf.
func sumTreeNode(n int, leaf func(int) *Node) *Node {
	if n == 1 {
		return leaf(0)
	}
	rest := n - 1
	k := 127
	if rest <= 127 {
		k = rest
	}
	sizes := make([]int, k)
	for i := range sizes {
		sizes[i] = 1
	}
	rest -= k
	for i := 0; rest > 0; i++ {
		add := rest
		if add > 3000 {
			add = 3000
		}
		if sizes[i%k]+add == 2 {
			add++
			if add > rest {
				// would leave a block of size 2: grow another block instead
				j := (i + 1) % k
				sizes[j] += rest
				if sizes[j] == 2 {
					sizes[j]++
					sizes[(j+1)%k]--
				}
				rest = 0
				break
			}
		}
		sizes[i%k] += add
		rest -= add
	}
	ch := make([]*Node, 0, k)
	for _, sz := range sizes {
		if sz == 2 {
			// cannot happen for the sizes used; keep the node count exact anyway
			ch = append(ch, Op("not", TInt, leaf(0)))
			continue
		}
		if sz <= 0 {
			continue
		}
		ch = append(ch, sumTreeNode(sz, leaf))
	}
	return Op("+", TInt, ch...)
}

func c09Specs(tier string) []c09Spec {
	if s, ok := c09Cache[tier]; ok {
		return s
	}
	var specs []c09Spec
	add := func(name string, expect int, build func() *Node) {
		specs = append(specs, c09Spec{name: name, build: build, expect: expect, events: []int{0, 1, 2}})
	}
	counts := []int{0, 1, 2, 3, 126, 127, 128, 129, 200, 255, 256, 257}
	if tier == "thorough" {
		counts = []int{0, 1, 2, 3, 4, 7, 8, 9, 15, 16, 17, 63, 64, 65, 120, 124, 125, 126, 127, 128, 129, 130, 131, 135, 160, 200, 250, 254, 255, 256, 257, 258, 260, 300, 511, 512, 513, 1000}
	}
	type opClass struct {
		op   string
		ty   Ty
		leaf func(int) *Node
	}
	classes := []opClass{
		{"+", TInt, one}, {"add", TInt, vone}, {"*", TInt, vone}, {"and", TBool, vtru}, {"&&", TBool, tru}, {"or", TBool, vfls}, {"|", TBool, vfls},
		{"eq", TBool, vone}, {"=", TBool, one}, {"xor", TBool, vtru}, {"cn", TInt, vone}, {"sn", TInt, one},
	}
	expectFor := func(n int) int {
		if n > 127 {
			return 1
		}
		return 0
	}
	for _, c := range classes {
		c := c
		for _, n := range counts {
			n := n
			if n < 2 && (isAndName(c.op) || isOrName(c.op)) {
				// single-operand and zero-operand and/or: operand-count *errors* are C18's subject (open known finding there)
				continue
			}
			ex := expectFor(n)
			add(fmt.Sprintf("root/%s/%d", c.op, n), ex, func() *Node { return nary(c.op, c.ty, n, c.leaf) })
			if n < 126 && tier != "thorough" && c.op != "+" && c.op != "and" {
				continue
			}
			// nested at depth 1..3, in first/middle/last position and inside if branches
			wrapInt := func(x *Node, pos int) *Node {
				ch := []*Node{Lit(int64(2)), Var("i0", TInt), Lit(int64(3))}
				ch[pos] = x
				return Op("+", TInt, ch...)
			}
			wrapBool := func(x *Node, pos int) *Node {
				ch := []*Node{Var("b0", TBool), Lit(true), Var("b0", TBool)}
				ch[pos] = x
				return Op("and", TBool, ch...)
			}
			for depth := 1; depth <= 3; depth++ {
				depth := depth
				for pos := 0; pos < 3; pos++ {
					pos := pos
					if tier != "thorough" && depth == 2 && pos != 1 {
						continue
					}
					add(fmt.Sprintf("nested-d%d-p%d/%s/%d", depth, pos, c.op, n), ex, func() *Node {
						x := nary(c.op, c.ty, n, c.leaf)
						for d := 0; d < depth; d++ {
							if c.ty == TInt {
								x = wrapInt(x, pos)
							} else {
								x = wrapBool(x, pos)
							}
						}
						return x
					})
				}
			}
			for br := 0; br < 3; br++ {
				br := br
				add(fmt.Sprintf("in-if-%d/%s/%d", br, c.op, n), ex, func() *Node {
					x := nary(c.op, c.ty, n, c.leaf)
					switch br {
					case 0:
						if c.ty == TBool {
							return If(x, Lit(int64(1)), Lit(int64(2)))
						}
						return If(Op(">", TBool, x, Lit(int64(0))), Lit(int64(1)), Lit(int64(2)))
					case 1:
						return If(Var("b0", TBool), x, x.Clone())
					default:
						return If(Var("b1", TBool), Lit(int64(0)), x)
					}
				})
			}
		}
	}
	// flattening: (and (and xk) (and xm)), also three groups and or
	for _, op := range []string{"and", "or", "&&", "|"} {
		op := op
		for _, km := range [][]int{{63, 63}, {63, 64}, {64, 64}, {64, 65}, {100, 27}, {126, 1}, {127, 1}, {127, 127}, {2, 125}, {2, 126}, {127, 128}, {100, 100, 55}, {100, 100, 56}, {42, 42, 43}, {43, 43, 42}, {1, 126}, {1, 127}} {
			km := km
			ex := 2
			tot := 0
			direct := false
			for _, k := range km {
				tot += k
				if k > 127 {
					direct = true
				}
			}
			if direct {
				ex = 1
			} else if tot <= 127 {
				ex = 0
			}
			for variant := 0; variant < 3; variant++ {
				variant := variant
				add(fmt.Sprintf("flatten-v%d/%s/%v", variant, op, km), ex, func() *Node {
					leaf := vtru
					if isOrName(op) {
						leaf = vfls
					}
					var groups []*Node
					for gi, k := range km {
						var g *Node
						if k == 1 {
							g = leaf(0)
						} else {
							g = nary(op, TBool, k, leaf)
						}
						if variant == 1 && gi == len(km)-1 && k > 1 {
							// the deciding operand sits at the very end of the last group
							g.Ch[k-1] = Lit(isOrName(op))
						}
						groups = append(groups, g)
					}
					x := Op(op, TBool, groups...)
					if variant == 2 {
						return If(x, Lit(int64(1)), Lit(int64(2)))
					}
					return x
				})
			}
		}
	}
	// stack depth ladders
	peaks := []struct {
		name string
		mk   func() *Node
	}{
		{"const", func() *Node { return Lit(int64(1)) }},
		{"var", func() *Node { return Var("i0", TInt) }},
		{"zeroarg", func() *Node { return Op("cz", TInt) }},
		{"szeroarg", func() *Node { return Op("sz", TInt) }},
		{"twoleaf", func() *Node { return Op("+", TInt, Var("i0", TInt), Lit(int64(1))) }},
		{"if", func() *Node { return If(Var("b0", TBool), Lit(int64(1)), Lit(int64(2))) }},
		{"ifop", func() *Node { return If(Var("b1", TBool), Lit(int64(1)), Op("cz", TInt)) }},
		{"nary0", func() *Node { return Op("cn", TInt) }},
	}
	depths := []int{5, 6, 7, 8, 9, 10, 14, 15, 16, 17, 18, 30, 100, 126}
	if tier == "thorough" {
		depths = nil
		for d := 2; d <= 40; d++ {
			depths = append(depths, d)
		}
		depths = append(depths, 62, 63, 64, 65, 100, 125, 126)
	}
	for _, pk := range peaks {
		pk := pk
		for _, d := range depths {
			d := d
			add(fmt.Sprintf("flat-stack/%s/%d", pk.name, d), 0, func() *Node {
				ch := make([]*Node, d+1)
				for i := 0; i < d; i++ {
					ch[i] = Var("i0", TInt)
				}
				ch[d] = pk.mk()
				return Op("+", TInt, ch...)
			})
			add(fmt.Sprintf("flat-stack-mid/%s/%d", pk.name, d), 0, func() *Node {
				ch := make([]*Node, d+1)
				for i := 0; i <= d; i++ {
					ch[i] = Lit(int64(2))
				}
				ch[d-1] = pk.mk()
				return Op("cn", TInt, ch...)
			})
		}
		nestDepths := []int{5, 6, 7, 8, 9, 13, 14, 15, 16, 17, 18, 30, 100, 1000}
		if tier == "thorough" {
			nestDepths = nil
			for d := 1; d <= 40; d++ {
				nestDepths = append(nestDepths, d)
			}
			nestDepths = append(nestDepths, 100, 255, 256, 257, 1000, 2000)
		}
		for _, d := range nestDepths {
			d := d
			add(fmt.Sprintf("right-nested/%s/%d", pk.name, d), 0, func() *Node {
				x := pk.mk()
				for i := 0; i < d; i++ {
					x = Op("+", TInt, Var("i0", TInt), x)
				}
				return x
			})
			add(fmt.Sprintf("right-nested-bool/%s/%d", pk.name, d), 0, func() *Node {
				x := Op(">", TBool, pk.mk(), Lit(int64(0)))
				for i := 0; i < d; i++ {
					if i%2 == 0 {
						x = Op("=", TBool, Var("b0", TBool), x)
					} else {
						x = Op("and", TBool, Var("b0", TBool), Op("or", TBool, Var("b1", TBool), x))
					}
				}
				return x
			})
			add(fmt.Sprintf("right-nested-if/%s/%d", pk.name, d), 0, func() *Node {
				x := pk.mk()
				for i := 0; i < d; i++ {
					x = Op("+", TInt, Lit(int64(1)), If(Var([]string{"b0", "b1"}[i%2], TBool), x, Lit(int64(i))))
				}
				return x
			})
		}
	}
	// node-count boundaries
	heavy := func(name string, expect int, events []int, build func() *Node) {
		specs = append(specs, c09Spec{name: name, build: build, expect: expect, heavy: true, events: events})
	}
	evSizes := []int{16382, 16383, 16384, 16385, 16386}
	if tier == "thorough" {
		evSizes = []int{16000, 16376, 16377, 16378, 16379, 16380, 16381, 16382, 16383, 16384, 16385, 16386, 16387, 16388, 16390, 16400, 17000}
	}
	for _, n := range evSizes {
		n := n
		heavy(fmt.Sprintf("nodes/const/%d", n), 0, []int{0}, func() *Node { return sumTreeNode(n, one) })
		evx := 1
		if n <= 16383 {
			evx = 0
		}
		heavy(fmt.Sprintf("nodes-events/const/%d", n), evx, []int{1, 2}, func() *Node { return sumTreeNode(n, one) })
		heavy(fmt.Sprintf("nodes-events/var/%d", n), evx, []int{1}, func() *Node { return sumTreeNode(n, vone) })
		// with an if: the engine adds a fi node the source does not show
		heavy(fmt.Sprintf("nodes-events/if/%d", n), 2, []int{1, 2}, func() *Node {
			return If(Var("b0", TBool), sumTreeNode(n-3, one), Lit(int64(0)))
		})
	}
	for _, n := range []int{20000, 24575, 24576, 24577} {
		n := n
		// two-leaf blocks: under FastEvaluation the children get no event node
		heavy(fmt.Sprintf("nodes-events/twoleaf/%d", n), 2, []int{1}, func() *Node {
			return sumTreeNode(n/3, func(int) *Node { return Op("+", TInt, Var("i0", TInt), Lit(int64(1))) })
		})
	}
	nodeSizes := []int{32765, 32766, 32767, 32768, 32769, 40000}
	if tier == "thorough" {
		nodeSizes = []int{30000, 32700, 32760, 32761, 32762, 32763, 32764, 32765, 32766, 32767, 32768, 32769, 32770, 32771, 32772, 32780, 33000, 40000, 65535, 65536, 65537, 70000}
	}
	for _, n := range nodeSizes {
		n := n
		ex := 0
		if n > 32767 {
			ex = 1
		}
		heavy(fmt.Sprintf("nodes/const/%d", n), ex, []int{0}, func() *Node { return sumTreeNode(n, one) })
		heavy(fmt.Sprintf("nodes/var/%d", n), ex, []int{0}, func() *Node { return sumTreeNode(n, vone) })
		heavy(fmt.Sprintf("nodes-events/const/%d", n), 1, []int{1}, func() *Node { return sumTreeNode(n, one) })
		// the if's hidden fi node counts
		exIf := 0
		if n+1 > 32767 {
			exIf = 1
		}
		heavy(fmt.Sprintf("nodes/if/%d", n), exIf, []int{0}, func() *Node {
			return If(Var("b0", TBool), sumTreeNode(n-3, vone), Lit(int64(0)))
		})
	}
	// operand-stack depth far beyond the node-per-level shapes: wide operators nested in last position keep all their
	// other operands pending (depth = levels * (width-1) + 1), still within 127 operands and 32767 nodes
	type wd struct{ levels, width int }
	wds := []wd{{65, 127}, {129, 127}, {130, 127}, {131, 127}, {140, 127}, {257, 127}, {300, 100}}
	if tier == "thorough" {
		wds = append(wds, wd{64, 127}, wd{128, 127}, wd{132, 127}, wd{200, 127}, wd{256, 127}, wd{258, 127}, wd{1000, 30}, wd{16000, 2}, wd{330, 100})
	}
	for _, x := range wds {
		x := x
		nodes := x.levels*x.width + 1
		ex := 0
		if nodes > 32767 {
			ex = 1
		}
		heavy(fmt.Sprintf("stack-depth/%dx%d", x.levels, x.width), ex, []int{0}, func() *Node {
			t := Var("i0", TInt)
			for l := 0; l < x.levels; l++ {
				ch := make([]*Node, x.width)
				for i := range ch {
					ch[i] = Var("i0", TInt)
				}
				ch[x.width-1] = t
				t = Op("+", TInt, ch...)
			}
			return t
		})
	}
	// list literals are one node however long they are: far more tokens than nodes, all within the limits
	listSizes := []int{32767, 32768, 70000, 98303, 98304, 150000}
	if tier == "thorough" {
		listSizes = []int{255, 256, 32766, 32767, 32768, 32769, 65535, 65536, 65537, 98300, 98301, 98302, 98303, 98304, 98305, 131072, 150000, 300000}
	}
	for _, n := range listSizes {
		n := n
		heavy(fmt.Sprintf("list-literal/in/%d", n), 0, []int{0, 1}, func() *Node {
			l := make([]int64, n)
			for i := range l {
				l[i] = int64(i) * 3
			}
			return Op("in", TBool, Op("+", TInt, Var("i0", TInt), Lit(int64(3*(n-1)-1))), Lit(l)) // i0 = 1: the last element
		})
		heavy(fmt.Sprintf("list-literal/overlap/%d", n), 0, []int{0}, func() *Node {
			l := make([]string, n)
			for i := range l {
				l[i] = fmt.Sprintf("e%d", i)
			}
			return Op("overlap", TBool, Lit([]string{"x", fmt.Sprintf("e%d", n-1)}), Lit(l))
		})
	}
	c09Cache[tier] = specs
	return specs
}

func c09Run(w *W, idx int) {
	spec := c09Specs(w.Tier)[idx]
	tree := spec.build()
	src := tree.Prefix()
	w.Inc("specs_run")
	b := Binding{Vals: map[string]interface{}{"i0": int64(1), "b0": true, "b1": false}}
	opts := allOptSets()
	if spec.heavy {
		opts = []OptSet{OptNone, OptAll, OptFE, OptCF | OptRN}
	}
	custom := map[string]*CustomOp{}
	for k, v := range stdCustom {
		custom[k] = v
	}
	cnt := &CustomOp{Name: "cn", Fn: func(a []interface{}) (interface{}, error) { return int64(len(a)), nil }}
	custom["cn"] = cnt
	scnt := *cnt
	scnt.Name = "sn"
	custom["sn"] = &scnt

	env := &Env{Vars: b.Vals, Custom: custom}
	want, wantErr := env.Eval(tree)
	show := firstN(src, 300)
	w.Sample(spec.name[:indexOrLen(spec.name, '/')], fmt.Sprintf("%s: %s", spec.name, show))

	for _, o := range opts {
		for _, ev := range spec.events {
			cfg := CaseCfg{Opts: o, Events: ev, VarNames: []string{"i0", "b0", "b1"}, Custom: custom, Stateless: append([]string{"sn"}, stdStateless...)}
			cc := buildConfig(cfg, nil)
			e, co := compileGuard(cc, src)
			w.Evals++
			w.Nontrivial(spec.name, o.String(), fmt.Sprint(ev))
			if co.Panic != nil {
				w.Fail("compile-panic/"+normPanic(co.Panic)+"@"+panicSite(co.Stack), "Compile panicked: %v\nprogram %s: %s\nconfig: %s\n%s", co.Panic, spec.name, show, cfg, co.Stack)
				continue
			}
			expect := c09Expect(tree, o, ev)
			if co.Err != nil {
				if ev != 0 {
					w.Inc("events_rejected")
				}
				if expect == 0 {
					w.Fail("rejected-below-limit/"+specClass(spec.name), "Compile rejected a program within the limits: %v\nprogram %s: %s\nconfig: %s", co.Err, spec.name, show, cfg)
				} else {
					w.Inc("rejected_as_required")
				}
				continue
			}
			if expect == 1 {
				// accepted although beyond a limit
				w.Fail("accepted-beyond-limit/"+specClass(spec.name), "Compile accepted a program beyond the limits\nprogram %s: %s\nconfig: %s", spec.name, show, cfg)
				continue
			}
			w.Inc("accepted_as_required")
			if ev != 0 {
				w.Inc("events_accepted")
			}
			var maxStack int16
			if hooksCompiled {
				_, maxStack = progSnapshot(e)
				if sz := progSize(e); sz > 32767 {
					w.Fail("program-not-addressable", "compiled program has %d nodes, more than an int16 program counter can address\nprogram %s\nconfig: %s", sz, spec.name, cfg)
				}
				w.Max("max_program_size", int64(progSize(e)))
			}
			for _, kind := range []CallKind{CallEval, CallTryEval} {
				tr := NewTracer()
				tr.MaxStack = maxStack
				oc, evs := callExpr(e, kind, fetcherFor(b, nil), tr, ev != 0)
				w.Evals++
				w.Max("max_stack_peak", int64(tr.Peak)+1)
				what := []string{"Eval", "TryEval"}[kind]
				if tr.Bad != "" {
					w.Fail("step-monitor/"+stepSig(tr.Bad), "%s: %s\nprogram %s: %s\nconfig: %s", what, tr.Bad, spec.name, show, cfg)
				}
				if d := sameOutcome(oc, want, wantErr); d != "" {
					sig := "wrong-result-at-limit/" + specClass(spec.name)
					if oc.Panic != nil {
						sig = "eval-panic/" + normPanic(oc.Panic) + "@" + panicSite(oc.Stack)
					}
					w.Fail(sig, "%s: %s\nprogram %s: %s\nconfig: %s\n%s", what, d, spec.name, show, cfg, oc.Stack)
				}
				if ev != 0 && kind == CallEval {
					w.Count("loop_events", int64(len(evs)))
				}
			}
			_ = eval.DNE
		}
	}
}

func specClass(name string) string { return name[:indexOrLen(name, '/')] }

func indexOrLen(s string, c byte) int {
	for i := 0; i < len(s); i++ {
		if s[i] == c {
			return i
		}
	}
	return len(s)
}

// c09Expect: what the limits in the property require for this program under
// this configuration. 1 = must be rejected, 0 = must be accepted (and evaluate
// correctly), 2 = either (an enabled optimizer may remove or create the excess;
// whatever is accepted must still evaluate correctly).
func c09Expect(tree *Node, o OptSet, ev int) int {
	cf, rn := o&OptCF != 0, o&OptRN != 0
	must, may := false, false
	nodes := 0
	hasConstOp := false
	var flat func(x *Node) int
	flat = func(x *Node) int {
		n := 0
		for _, c := range x.Ch {
			if c.IsAndOr() && isAndName(c.Name) == isAndName(x.Name) {
				n += flat(c)
			} else {
				n++
			}
		}
		return n
	}
	tree.Walk(func(x *Node) {
		nodes++
		if x.Kind == KIf {
			nodes++ // the engine's end-if node
		}
		if x.Kind != KOp {
			return
		}
		allConst := true
		anyConst := false
		for _, c := range x.Ch {
			if c.Kind != KLit {
				allConst = false
			} else {
				anyConst = true
			}
		}
		if x.IsAndOr() && anyConst {
			// a deciding constant operand folds the whole and/or
			allConst = true
		}
		if allConst {
			hasConstOp = true
		}
		if len(x.Ch) > 127 {
			if cf && allConst {
				may = true
			} else {
				must = true
			}
		} else if rn && x.IsAndOr() && flat(x) > 127 {
			may = true
		}
	})
	if nodes > 32767 {
		if cf && hasConstOp {
			may = true
		} else {
			must = true
		}
	} else if ev != 0 && 2*nodes > 32767 {
		may = true
	}
	switch {
	case must:
		return 1
	case may:
		return 2
	}
	return 0
}
