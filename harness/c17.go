package main

// C17 — in / overlap are set membership / intersection for lists of any size.

import (
	"fmt"
	"math"
	"math/rand"
	"sort"
	"strings"

	"github.com/onheap/eval"
)

var c17Lens = []int{0, 1, 2, 3, 49, 50, 51, 98, 99, 100, 101, 150, 400}

func init() {
	register(&Prop{
		ID: "C17",
		Rule: "Enumerated grid: list lengths {0,1,2,3,49,50,51,98,99,100,101,150,400} on both sides (the scan/hash switch is at 100 combined elements) x element type (int64, string) x element order (ascending, descending, shuffled, with duplicates) " +
			"x overlap structure (disjoint; exactly one shared element placed first/middle/last in either list and being the minimum/maximum/an inner value; many shared) x how lists are passed (literal, ConstantMap constant, variable of type []int64/[]int/[]int32/[]string via NewCtxFromVars, pre-built sets for in) x optimizations off/on (folded at compile time). " +
			"Oracle: Go-map sets. overlap must be symmetric in value and error-ness; the empty list literal must behave as an empty list of either element type on either side; element-type mismatches must be errors; pre-built sets must be accepted by in. " +
			"A case is non-trivial when the combined length is >=100, a side is empty, or a type mismatch is involved; distinct = distinct (expression, binding).",
		Assumptions: []string{"set oracle built with Go maps in the harness"},
		NumCases: func(tier string) int {
			n := len(c17Lens) * len(c17Lens) * 2
			if tier == "thorough" {
				return n * 160
			}
			return n * 3
		},
		Run: c17Run,
		Floors: func(m *Merged, tier string) []string {
			var u []string
			for _, c := range []string{"overlap_hash_path", "overlap_scan_path", "overlap_true", "overlap_false", "in_true", "in_false", "empty_literal_left", "empty_literal_right", "type_mismatch_errors", "sets_accepted", "symmetry_checked", "folded", "shared_is_max_first", "single_element_lists", "refill_in", "refill_overlap", "nil_slice_list_variables", "padded_integer_literals", "sorted_lists_with_extremes"} {
				if m.C(c) == 0 {
					u = append(u, c+" = 0")
				}
			}
			return u
		},
	})
}

type c17List struct {
	ints []int64
	strs []string
	isS  bool
}

func (l c17List) len() int {
	if l.isS {
		return len(l.strs)
	}
	return len(l.ints)
}

func (l c17List) lit() *Node {
	if l.len() == 0 {
		return Lit([]string{})
	}
	if l.isS {
		return Lit(l.strs)
	}
	return Lit(l.ints)
}

func (l c17List) value() interface{} {
	if l.isS {
		return l.strs
	}
	return l.ints
}

// elemStr: the string element standing for value v; its length depends on v only (so equal values give equal
// strings in both lists): short, around 64 bytes, and long
func elemStr(v int64) string {
	pad := []int{0, 0, 1, 55, 60, 61, 62, 70, 300}[uint64(v)%9]
	return fmt.Sprintf("e%d", v) + strings.Repeat("x", pad)
}

// mkList: n elements drawn from distinct base values (offset), ordered by mode; dup adds duplicates.
func mkList(r *rand.Rand, n int, base int64, isS bool, order int, dup bool) c17List {
	vals := make([]int64, n)
	for i := range vals {
		vals[i] = base + int64(i)*3
		if dup && i > 0 && r.Intn(3) == 0 {
			vals[i] = vals[r.Intn(i)]
		}
	}
	switch order {
	case 1:
		sort.Slice(vals, func(i, j int) bool { return vals[i] > vals[j] })
	case 2:
		r.Shuffle(len(vals), func(i, j int) { vals[i], vals[j] = vals[j], vals[i] })
	}
	l := c17List{isS: isS}
	if isS {
		l.strs = make([]string, n)
		for i, v := range vals {
			l.strs[i] = elemStr(v)
		}
	} else {
		l.ints = vals
	}
	return l
}

func (l *c17List) set(i int, v int64) {
	if l.isS {
		l.strs[i] = elemStr(v)
	} else {
		l.ints[i] = v
	}
}

func oracleOverlap(a, b c17List) bool {
	if a.isS {
		m := map[string]bool{}
		for _, x := range a.strs {
			m[x] = true
		}
		for _, y := range b.strs {
			if m[y] {
				return true
			}
		}
		return false
	}
	m := map[int64]bool{}
	for _, x := range a.ints {
		m[x] = true
	}
	for _, y := range b.ints {
		if m[y] {
			return true
		}
	}
	return false
}

func c17Run(w *W, idx int) {
	r := w.Rand(idx)
	nl := len(c17Lens)
	la, lb := c17Lens[idx%nl], c17Lens[(idx/nl)%nl]
	isS := (idx/nl/nl)%2 == 1
	for order := 0; order < 3; order++ {
		for _, dup := range []bool{false, true} {
			// disjoint
			a := mkList(r, la, 1000, isS, order, dup)
			b := mkList(r, lb, 5000, isS, (order+r.Intn(3))%3, dup)
			c17Overlap(w, r, a, b, "disjoint")
			if la > 0 && lb > 0 {
				// exactly one shared element: positions x what the shared value is relative to the lists
				for _, pa := range []int{0, la / 2, la - 1} {
					for _, pb := range []int{0, lb / 2, lb - 1} {
						for _, rel := range []int64{-7, 3001, 99999} { // below all, between, above all elements
							a2 := mkList(r, la, 1000, isS, order, false)
							b2 := mkList(r, lb, 5000, isS, (order+r.Intn(3))%3, false)
							a2.set(pa, rel)
							b2.set(pb, rel)
							if rel == 99999 && pa == 0 {
								w.Inc("shared_is_max_first")
							}
							c17Overlap(w, r, a2, b2, "one-shared")
						}
					}
				}
				// many shared
				a3 := mkList(r, la, 1000, isS, order, dup)
				b3 := mkList(r, lb, 1000+int64(3*(la/2)), isS, 2, dup)
				c17Overlap(w, r, a3, b3, "many-shared")
			}
			if !isS && la > 1 && lb > 0 && order == 0 {
				// ascending lists whose elements lie more than 2^63 apart (differences overflow)
				a4 := mkList(r, la, 1000, false, 0, false)
				b4 := mkList(r, lb, 1000+int64(3*(la/2)), false, 0, false)
				a4.set(0, math.MinInt64)
				if la > 2 {
					a4.set(1, []int64{0, -1, -1000, math.MinInt64 / 2}[r.Intn(4)]) // neighbours stay less than 2^63 apart
				}
				if r.Intn(2) == 0 {
					a4.set(la-1, math.MaxInt64)
				}
				if r.Intn(2) == 0 && lb > 1 {
					b4.set(lb-1, math.MaxInt64-1)
				}
				c17Overlap(w, r, a4, b4, "extremes-sorted")
				b5 := mkList(r, lb, 900000, false, 0, false)
				b5.set(0, math.MinInt64) // the only shared element is the minimum
				c17Overlap(w, r, a4, b5, "extremes-sorted")
				w.Inc("sorted_lists_with_extremes")
			}
			// membership
			c17In(w, r, a, isS)
		}
	}
	if la == 1 || lb == 1 {
		w.Inc("single_element_lists")
	}
	c17Mismatch(w, r, la, lb)
	c17Refill(w, r, la, lb, isS)
	c17Padded(w, r)
	if idx%10 == 7 {
		c17Huge(w, r, isS)
	}
	w.Count("nil_slice_list_variables", int64(c17NilLists))
	c17NilLists = 0
}

// c17Refill: the caller owns the list it binds and may refill it in place between evaluations (a pooled request
// buffer): one compiled expression, one backing array, three rounds of contents; every round is judged by the set oracle
// on the contents of that round.
func c17Refill(w *W, r *rand.Rand, la, lb int, isS bool) {
	if la == 0 {
		return
	}
	bufA := mkList(r, la, 1000, isS, 0, false)
	bufB := mkList(r, lb, 5000, isS, 1, false)
	opts := []OptSet{OptNone, OptAll}[r.Intn(2)]
	names := []string{"A", "B", "v"}
	cc := buildConfig(CaseCfg{Opts: opts, VarNames: names, Custom: stdCustom}, nil)
	eIn, c1 := compileGuard(cc, "(in v A)")
	eOv, c2 := compileGuard(cc, "(overlap A B)")
	eOv2, c3 := compileGuard(cc, "(overlap B A)")
	if c1.Err != nil || c2.Err != nil || c3.Err != nil || c1.Panic != nil || c2.Panic != nil || c3.Panic != nil {
		w.Fail("refill-compile", "compiling (in v A) / (overlap A B) failed: %v %v %v", c1, c2, c3)
		return
	}
	var prevMember interface{} = int64(-5)
	if isS {
		prevMember = "absent"
	}
	for round := 0; round < 3; round++ {
		if round > 0 {
			// same backing arrays, same lengths, new contents: shifted so that old members leave and new ones enter
			shift := int64(7 + 13*round)
			for i := 0; i < la; i++ {
				bufA.set(i, 1000+int64(i)*3+shift*100000)
			}
			for i := 0; i < lb; i++ {
				bufB.set(i, 5000+int64(i)*3+shift*100000)
			}
			if round == 2 && lb > 0 {
				bufB.set(lb/2, 1000+shift*100000) // now shares A's first element
			}
		}
		var cur interface{}
		if isS {
			cur = bufA.strs[la/2]
		} else {
			cur = bufA.ints[la/2]
		}
		old := prevMember // a member of the previous round's contents (round 0: an absent value)
		prevMember = cur
		for _, p := range []struct {
			v    interface{}
			want bool
		}{{cur, true}, {old, c17Has(bufA, old)}} {
			vals := map[string]interface{}{"A": bufA.value(), "B": bufB.value(), "v": p.v}
			o := guard(func() (eval.Value, error) { return eIn.Eval(eval.NewCtxFromVars(cc, vals)) })
			w.Evals++
			w.Inc("refill_in")
			if o.Panic != nil || o.Err != nil || o.V != p.want {
				w.Fail("in-wrong/refilled-in-place", "(in %s A) = %s, oracle says %v; A (%d elements) is the caller's slice refilled in place, round %d (options %s): %s", valText(p.v), o, p.want, la, round, opts, firstN(valText(bufA.value()), 500))
			}
		}
		want := oracleOverlap(bufA, bufB)
		for i, e := range []*eval.Expr{eOv, eOv2} {
			vals := map[string]interface{}{"A": bufA.value(), "B": bufB.value(), "v": int64(0)}
			o := guard(func() (eval.Value, error) { return e.Eval(eval.NewCtxFromVars(cc, vals)) })
			w.Evals++
			w.Inc("refill_overlap")
			if o.Panic != nil || o.Err != nil || o.V != want {
				w.Fail("overlap-wrong/refilled-in-place", "%s = %s, oracle says %v; |A|=%d |B|=%d, both the caller's slices refilled in place, round %d (options %s)", []string{"(overlap A B)", "(overlap B A)"}[i], o, want, la, lb, round, opts)
			}
		}
	}
}

func c17Has(l c17List, v interface{}) bool {
	if l.isS {
		for _, x := range l.strs {
			if x == v {
				return true
			}
		}
		return false
	}
	for _, x := range l.ints {
		if x == v {
			return true
		}
	}
	return false
}

type c17Pass int

const (
	passLit c17Pass = iota
	passConst
	passVar
	passVarInt   // []int
	passVarInt32 // []int32
	numPasses
)

var c17NilToggle, c17NilLists int

func c17Operand(l c17List, p c17Pass, name string, consts, vals map[string]interface{}) (*Node, bool) {
	switch p {
	case passLit:
		return l.lit(), true
	case passConst:
		if l.len() == 0 {
			return l.lit(), true
		}
		consts[name] = l.value()
		return ConstRef(name, l.value()), true
	case passVar:
		vals[name] = l.value()
		if l.len() == 0 {
			// an empty list held in a variable is, every other time, a nil slice (an unset field of the caller's data)
			c17NilToggle++
			if c17NilToggle%2 == 0 {
				if l.isS {
					vals[name] = []string(nil)
				} else {
					vals[name] = []int64(nil)
				}
				c17NilLists++
			}
		}
		return Var(name, TAny), true
	case passVarInt:
		if l.isS {
			return nil, false
		}
		x := make([]int, len(l.ints))
		for i, v := range l.ints {
			x[i] = int(v)
		}
		vals[name] = x
		return Var(name, TAny), true
	default:
		if l.isS {
			return nil, false
		}
		x := make([]int32, len(l.ints))
		for i, v := range l.ints {
			if v < math.MinInt32 || v > math.MaxInt32 {
				return nil, false // not representable in this element type
			}
			x[i] = int32(v)
		}
		vals[name] = x
		return Var(name, TAny), true
	}
}

// c17Exec compiles and evaluates tree with the stock NewCtxFromVars path.
func c17Exec(w *W, tree *Node, consts, vals map[string]interface{}, opts OptSet) Outcome {
	var names []string
	for k := range vals {
		names = append(names, k)
	}
	sort.Strings(names)
	cfg := CaseCfg{Opts: opts, Consts: consts, VarNames: names, Custom: stdCustom}
	cc := buildConfig(cfg, nil)
	e, co := compileGuard(cc, tree.Prefix())
	w.Evals++
	if co.Panic != nil {
		return co
	}
	if co.Err != nil {
		return Outcome{Err: fmt.Errorf("compile: %w", co.Err), Stack: "compile"}
	}
	o := guard(func() (eval.Value, error) { return e.Eval(eval.NewCtxFromVars(cc, vals)) })
	w.Evals++
	return o
}

func c17Overlap(w *W, r *rand.Rand, a, b c17List, kind string) {
	want := oracleOverlap(a, b)
	if a.len()+b.len() >= 100 {
		w.Inc("overlap_hash_path")
	} else {
		w.Inc("overlap_scan_path")
	}
	if want {
		w.Inc("overlap_true")
	} else {
		w.Inc("overlap_false")
	}
	pa, pb := c17Pass(r.Intn(int(numPasses))), c17Pass(r.Intn(int(numPasses)))
	for trial := 0; trial < 2; trial++ {
		if trial == 1 {
			pa, pb = passLit, passLit
		}
		opts := []OptSet{OptNone, OptAll}[r.Intn(2)]
		consts, vals := map[string]interface{}{}, map[string]interface{}{}
		na, ok1 := c17Operand(a, pa, "A", consts, vals)
		nb, ok2 := c17Operand(b, pb, "B", consts, vals)
		if !ok1 || !ok2 {
			continue
		}
		if a.len() == 0 && na.Kind == KLit {
			w.Inc("empty_literal_left")
		}
		if b.len() == 0 && nb.Kind == KLit {
			w.Inc("empty_literal_right")
		}
		if opts == OptAll && na.Kind == KLit && nb.Kind == KLit {
			w.Inc("folded")
		}
		desc := func() string {
			return fmt.Sprintf("A (%d elements, passed as %v) = %s\nB (%d elements, passed as %v) = %s\noptions: %s", a.len(), pa, firstN(valText(a.value()), 700), b.len(), pb, firstN(valText(b.value()), 700), opts)
		}
		w.Sample("overlap-"+kind, fmt.Sprintf("(overlap A B) with |A|=%d passed as %v, |B|=%d passed as %v, options %s; A=%s B=%s", a.len(), pa, b.len(), pb, opts, firstN(valText(a.value()), 120), firstN(valText(b.value()), 120)))
		ab := c17Exec(w, Op("overlap", TBool, na, nb), consts, vals, opts)
		ba := c17Exec(w, Op("overlap", TBool, nb, na), consts, vals, opts)
		if a.len()+b.len() >= 100 || a.len() == 0 || b.len() == 0 {
			w.Nontrivial(kind, valText(a.value()), valText(b.value()), fmt.Sprint(pa, pb, opts))
		}
		for i, o := range []Outcome{ab, ba} {
			dir := []string{"(overlap A B)", "(overlap B A)"}[i]
			if o.Panic != nil {
				w.Fail("panic/"+normPanic(o.Panic)+"@"+panicSite(o.Stack), "%s panicked: %v\n%s\n%s", dir, o.Panic, desc(), o.Stack)
				continue
			}
			if o.Err != nil || o.V != want {
				path := "scan"
				if a.len()+b.len() >= 100 {
					path = "hash"
				}
				w.Fail("overlap-wrong/"+kind+"/"+path, "%s = %s, set oracle says %v\n%s", dir, o, want, desc())
			}
		}
		w.Inc("symmetry_checked")
	}
}

func c17In(w *W, r *rand.Rand, l c17List, isS bool) {
	// probes: every boundary position, and absent values
	type probe struct {
		v    interface{}
		want bool
	}
	var probes []probe
	n := l.len()
	for _, p := range []int{0, n / 2, n - 1} {
		if p >= 0 && p < n {
			if isS {
				probes = append(probes, probe{l.strs[p], true})
			} else {
				probes = append(probes, probe{l.ints[p], true})
			}
		}
	}
	if isS {
		probes = append(probes, probe{"absent", false}, probe{"", false}, probe{"e", false})
	} else {
		probes = append(probes, probe{int64(-12345), false}, probe{int64(0), false}, probe{extremeInts[0], false}, probe{extremeInts[6], false})
	}
	for _, p := range probes {
		for pass := 0; pass < 4; pass++ {
			consts, vals := map[string]interface{}{}, map[string]interface{}{}
			var ln *Node
			switch pass {
			case 0:
				ln = l.lit()
			case 1:
				vals["L"] = l.value()
				ln = Var("L", TAny)
			case 2:
				// pre-built set
				if isS {
					s := map[string]struct{}{}
					for _, x := range l.strs {
						s[x] = struct{}{}
					}
					vals["L"] = s
				} else {
					s := map[int64]struct{}{}
					for _, x := range l.ints {
						s[x] = struct{}{}
					}
					vals["L"] = s
				}
				ln = Var("L", TAny)
				w.Inc("sets_accepted")
			default:
				if l.len() == 0 {
					continue
				}
				consts["KL"] = l.value()
				ln = ConstRef("KL", l.value())
			}
			var vn *Node
			if r.Intn(2) == 0 {
				vals["v"] = p.v
				vn = Var("v", TAny)
			} else {
				vn = Lit(p.v)
			}
			opts := []OptSet{OptNone, OptAll}[r.Intn(2)]
			w.Sample("in", fmt.Sprintf("(in %s L) with |L|=%d passed as %s, options %s", valText(p.v), n, []string{"literal", "variable", "pre-built set", "constant"}[pass], opts))
			o := c17Exec(w, Op("in", TBool, vn, ln), consts, vals, opts)
			if p.want {
				w.Inc("in_true")
			} else {
				w.Inc("in_false")
			}
			if o.Panic != nil {
				w.Fail("panic/"+normPanic(o.Panic)+"@"+panicSite(o.Stack), "in panicked: %v\n%s", o.Panic, o.Stack)
				continue
			}
			if o.Err != nil || o.V != p.want {
				w.Fail("in-wrong", "(in %s L) = %s, oracle says %v; L has %d elements passed as %s: %s (options %s)", valText(p.v), o, p.want, n, []string{"literal", "variable", "pre-built set", "constant"}[pass], firstN(valText(l.value()), 700), opts)
			}
		}
	}
}

// element-type mismatches are errors, never false; empty literal is typeless
func c17Mismatch(w *W, r *rand.Rand, la, lb int) {
	ia := mkList(r, maxI(la, 1), 10, false, 0, false)
	sb := mkList(r, maxI(lb, 1), 10, true, 0, false)
	expectErr := func(tree *Node, vals map[string]interface{}, what string) {
		for _, opts := range []OptSet{OptNone, OptAll} {
			o := c17Exec(w, tree, map[string]interface{}{}, vals, opts)
			w.Inc("type_mismatch_errors")
			w.Nontrivial("mismatch", tree.Prefix(), fmt.Sprint(opts))
			if o.Panic != nil {
				w.Fail("panic/"+normPanic(o.Panic)+"@"+panicSite(o.Stack), "%s panicked: %v", what, o.Panic)
			} else if o.Err == nil {
				w.Fail("type-mismatch-not-an-error", "%s returned %s instead of an error\nexpression: %s", what, o, firstN(tree.Prefix(), 600))
			}
		}
	}
	expectFalse := func(tree *Node, vals map[string]interface{}, what string) {
		for _, opts := range []OptSet{OptNone, OptAll} {
			o := c17Exec(w, tree, map[string]interface{}{}, vals, opts)
			if o.Panic != nil || o.Err != nil || o.V != false {
				w.Fail("empty-list-literal", "%s gave %s, expected false\nexpression: %s", what, o, firstN(tree.Prefix(), 600))
			}
		}
	}
	empty := Lit([]string{})
	expectErr(Op("overlap", TBool, ia.lit(), sb.lit()), nil, "overlap of an int list with a string list")
	expectErr(Op("overlap", TBool, sb.lit(), ia.lit()), nil, "overlap of a string list with an int list")
	expectErr(Op("overlap", TBool, Var("A", TAny), Var("B", TAny)), map[string]interface{}{"A": ia.ints, "B": sb.strs}, "overlap of an int list variable with a string list variable")
	expectErr(Op("in", TBool, Lit("e10"), ia.lit()), nil, "membership of a string in an int list")
	expectErr(Op("in", TBool, Lit(int64(10)), sb.lit()), nil, "membership of an int in a string list")
	expectErr(Op("in", TBool, Lit(true), ia.lit()), nil, "membership of a boolean")
	// a non-constant probe of the wrong element type against a constant list (literal and ConstantMap constant) of this length
	expectErr(Op("in", TBool, Var("v", TAny), ia.lit()), map[string]interface{}{"v": "e10"}, "membership of a string variable in a constant int list")
	expectErr(Op("in", TBool, Var("v", TAny), sb.lit()), map[string]interface{}{"v": int64(10)}, "membership of an int variable in a constant string list")
	expectErr(Op("in", TBool, Var("v", TAny), ia.lit()), map[string]interface{}{"v": true}, "membership of a boolean variable in a constant int list")
	expectErr(Op("not", TBool, Op("in", TBool, Op("cs", TStr, Var("v", TAny)), ia.lit())), map[string]interface{}{"v": "e10"}, "membership of a computed string in a constant int list")
	expectErr(Op("overlap", TBool, Var("A", TAny), sb.lit()), map[string]interface{}{"A": ia.ints}, "overlap of an int list variable with a constant string list")
	expectErr(Op("overlap", TBool, sb.lit(), Var("A", TAny)), map[string]interface{}{"A": ia.ints}, "overlap of a constant string list with an int list variable")
	expectErr(Op("overlap", TBool, ia.lit(), Lit(int64(1))), nil, "overlap with a scalar")
	expectErr(Op("overlap", TBool, Var("S", TAny), ia.lit()), map[string]interface{}{"S": map[int64]struct{}{10: {}}}, "overlap with a pre-built set")
	for _, l := range []c17List{ia, sb} {
		expectFalse(Op("overlap", TBool, empty, l.lit()), nil, "overlap of the empty literal (left)")
		expectFalse(Op("overlap", TBool, l.lit(), empty), nil, "overlap of the empty literal (right)")
		expectFalse(Op("overlap", TBool, empty, Var("L", TAny)), map[string]interface{}{"L": l.value()}, "overlap of the empty literal (left) with a variable")
		expectFalse(Op("overlap", TBool, Var("L", TAny), empty), map[string]interface{}{"L": l.value()}, "overlap of the empty literal (right) with a variable")
		w.Inc("empty_literal_left")
		w.Inc("empty_literal_right")
	}
	// an empty list held in a variable keeps the element type of its Go type (only the literal () is typeless)
	for _, ev := range []interface{}{[]int{}, []int32{}, []int64{}, []int(nil), []int32(nil)} {
		expectErr(Op("in", TBool, Lit("a"), Var("E", TAny)), map[string]interface{}{"E": ev}, fmt.Sprintf("membership of a string in an empty %T variable", ev))
		expectErr(Op("overlap", TBool, Var("E", TAny), sb.lit()), map[string]interface{}{"E": ev}, fmt.Sprintf("overlap of an empty %T variable with a string list", ev))
		expectErr(Op("overlap", TBool, sb.lit(), Var("E", TAny)), map[string]interface{}{"E": ev}, fmt.Sprintf("overlap of a string list with an empty %T variable", ev))
	}
	// a probe that is neither an integer nor a string is an element of no list, empty ones included: an error against
	// every kind of collection (literal, empty literal, typed empty variables, nil slices, pre-built sets)
	probes := []struct {
		v    interface{}
		what string
	}{{true, "a boolean"}, {nil, "nil"}, {[]int64{1}, "a list"}, {1.5, "a float64"}, {eval.DNE, "the DNE marker"}, {map[int64]struct{}{1: {}}, "a set"}}
	colls := []struct {
		n    *Node
		v    interface{}
		what string
	}{
		{empty, nil, "the empty list literal"}, {ia.lit(), nil, "an int list literal"}, {sb.lit(), nil, "a string list literal"},
		{Var("L", TAny), []string{}, "an empty []string variable"}, {Var("L", TAny), []string(nil), "a nil []string variable"},
		{Var("L", TAny), []int64{}, "an empty []int64 variable"}, {Var("L", TAny), []int64(nil), "a nil []int64 variable"},
		{Var("L", TAny), []int{}, "an empty []int variable"},
		{Var("L", TAny), sb.strs, "a []string variable"}, {Var("L", TAny), ia.ints, "a []int64 variable"},
		{Var("L", TAny), map[string]struct{}{}, "an empty pre-built string set"}, {Var("L", TAny), map[int64]struct{}{}, "an empty pre-built int set"},
		{Var("L", TAny), map[string]struct{}{"a": {}}, "a pre-built string set"}, {Var("L", TAny), map[int64]struct{}{5: {}}, "a pre-built int set"},
	}
	for _, p := range probes {
		for _, c := range colls {
			vals := map[string]interface{}{"v": p.v}
			if c.v != nil {
				vals["L"] = c.v
			}
			expectErr(Op("in", TBool, Var("v", TAny), c.n), vals, "membership of "+p.what+" (variable) in "+c.what)
			w.Inc("ill_typed_probes")
		}
	}
	for _, c := range colls[:3] {
		expectErr(Op("in", TBool, Lit(true), c.n), nil, "membership of the literal true in "+c.what)
	}
	expectFalse(Op("overlap", TBool, empty, empty), nil, "overlap of two empty literals")
	expectFalse(Op("in", TBool, Lit(int64(1)), empty), nil, "membership in the empty literal (int)")
	expectFalse(Op("in", TBool, Lit("a"), empty), nil, "membership in the empty literal (string)")
}

func maxI(a, b int) int {
	if a > b {
		return a
	}
	return b
}

// c17Padded: integer list elements written with leading zeros (codes, identifiers) are decimal numbers like every
// other integer literal.
func c17Padded(w *W, r *rand.Rand) {
	n := []int{2, 3, 6, 40, 120}[r.Intn(5)]
	vals := make([]int64, n)
	txt := make([]string, n)
	for i := range vals {
		vals[i] = int64(r.Intn(400))
		if r.Intn(4) == 0 {
			vals[i] = []int64{8, 9, 10, 18, 19, 64, 77, 80, 100}[r.Intn(9)]
		}
		txt[i] = fmt.Sprintf("%0*d", 1+r.Intn(5), vals[i])
		if r.Intn(8) == 0 {
			txt[i] = "-" + txt[i]
			vals[i] = -vals[i]
		}
	}
	has := map[int64]bool{}
	for _, v := range vals {
		has[v] = true
	}
	list := "(" + strings.Join(txt, " ") + ")"
	probe := vals[r.Intn(n)]
	if r.Intn(2) == 0 {
		probe = int64(r.Intn(120))
	}
	type c struct {
		src  string
		want bool
	}
	other := []int64{probe, 100000}
	cases := []c{
		{fmt.Sprintf("(in %d %s)", probe, list), has[probe]},
		{fmt.Sprintf("(in %0*d %s)", 1+r.Intn(5), absI(probe), list), has[absI(probe)]},
		{fmt.Sprintf("(overlap (%d %d) %s)", other[0], other[1], list), has[probe]},
		{fmt.Sprintf("(overlap %s (%d %d))", list, other[1], other[0]), has[probe]},
		{fmt.Sprintf("(= %0*d %d)", 2+r.Intn(4), absI(probe), absI(probe)), true},
	}
	for _, cs := range cases {
		for _, opts := range []OptSet{OptNone, OptAll} {
			cc := buildConfig(CaseCfg{Opts: opts, Custom: stdCustom}, nil)
			e, co := compileGuard(cc, cs.src)
			w.Evals++
			w.Inc("padded_integer_literals")
			if co.Panic != nil || co.Err != nil {
				w.Fail("padded-integer-literal/compile", "%s does not compile: %s", firstN(cs.src, 600), co)
				continue
			}
			o := guard(func() (eval.Value, error) { return e.Eval(eval.NewCtxFromVars(cc, nil)) })
			w.Evals++
			if o.Panic != nil || o.Err != nil || o.V != cs.want {
				w.Fail("padded-integer-literal/wrong", "%s = %s, expected %v (integer literals are decimal, leading zeros included; options %s)", firstN(cs.src, 600), o, cs.want, opts)
			}
		}
	}
}

func absI(v int64) int64 {
	if v < 0 {
		return -v
	}
	return v
}

// c17Huge: lists of thousands of elements (sizes around powers of two and primes, where a table is resized or an input
// is split into blocks), disjoint or with exactly one shared element at the very end, near the end, in the middle or at the
// start of either list.
func c17Huge(w *W, r *rand.Rand, isS bool) {
	sizes := []int{1000, 2049, 4095, 4096, 4097, 5001, 8191, 8193, 10007, 16385, 20011}
	la, lb := sizes[r.Intn(len(sizes))], sizes[r.Intn(len(sizes))]
	if r.Intn(3) == 0 {
		lb = []int{1, 7, 120}[r.Intn(3)]
	}
	w.Inc("huge_list_cases")
	w.Max("longest_list", int64(maxI(la, lb)))
	pos := func(n int) int {
		return []int{n - 1, n - 1, maxI(n-2, 0), maxI(n-3, 0), maxI(n-1-r.Intn(1+n/1000+3), 0), n / 2, 0, r.Intn(n)}[r.Intn(8)]
	}
	if r.Intn(2) == 0 {
		// the caller's buffers of that size, refilled in place between evaluations
		c17Refill(w, r, []int{1024, 1500, 4096, 5001}[r.Intn(4)], []int{120, 1024, 3000}[r.Intn(3)], isS)
		w.Inc("huge_refills")
	}
	for round := 0; round < 3; round++ {
		order := r.Intn(3)
		a := mkList(r, la, 1000, isS, order, false)
		b := mkList(r, lb, 1000+int64(3*la)+5000, isS, (order+r.Intn(3))%3, false)
		if round > 0 {
			rel := []int64{-7, 99999999}[r.Intn(2)]
			a.set(pos(la), rel)
			b.set(pos(lb), rel)
			c17Overlap(w, r, a, b, "huge-one-shared")
		} else {
			c17Overlap(w, r, a, b, "huge-disjoint")
		}
	}
}
