package main

// C16 — Reordering is cost-directed, stable and confined to and/or operands.

import (
	"fmt"
	"math"
	"math/rand"
	"sort"
	"strconv"
	"strings"
)

func init() {
	register(&Prop{
		ID: "C16",
		Rule: "Programs whose and/or operands each carry a unique integer tag literal (so positions before/after are unambiguous), compiled with Reordering on (alone and with other optimizers; 'source order' is then the Dump of the same configuration with Reordering off). " +
			"Judged on parsed Dump trees: (1) the reordered tree equals the source tree up to permutation of and/or operands (operand multisets kept, all other operators and if untouched); (2) operands built cost-isomorphic (same shape and names, different tags) keep source order, incl. 13-120 equal-cost operands (Go's unstable sort is insertion sort below 13); " +
			"(3) for pairs of cost maps differing in one explicit entry (c < c') no operand mentioning the name moves ahead of a sibling that does not, and siblings not mentioning it keep their relative order; (4) with cost 1e15 every operand mentioning the name follows all siblings that do not; " +
			"(5) the fetch order seen by a recording fetcher equals the dumped order. Cost maps: per-name entries, variable/operator class entries, zero and negative values. " +
			"A program is non-trivial when an and/or has >=3 operands with >=2 distinct costs or >=13 equal-cost operands; distinct = distinct (source, cost map).",
		Assumptions: []string{
			"the cost formula is not re-implemented: equal cost is asserted only for operands that are cost-isomorphic by construction",
			"independent Dump reader",
		},
		NumCases: func(tier string) int {
			if tier == "thorough" {
				return 3000000
			}
			return 60000
		},
		Run: c16Run,
		Floors: func(m *Merged, tier string) []string {
			var u []string
			if m.C("programs_13plus_equal_cost") < 100 {
				u = append(u, fmt.Sprintf("only %d programs with >=13 equal-cost operands", m.C("programs_13plus_equal_cost")))
			}
			if m.C("costmap_pairs_changing_order") < 1000 {
				u = append(u, fmt.Sprintf("only %d cost-map pairs that change the order", m.C("costmap_pairs_changing_order")))
			}
			for _, c := range []string{"permutation_checks", "reordered_programs", "stability_pairs", "monotonicity_pairs", "large_cost_checks", "fetch_order_checks", "class_cost_entries", "negative_cost_entries"} {
				if m.C(c) == 0 {
					u = append(u, c+" = 0")
				}
			}
			return u
		},
	})
}

type c16Gen struct {
	r   *rand.Rand
	tag int64
}

func (g *c16Gen) nextTag() int64 { g.tag += 1 + int64(g.r.Intn(3)); return g.tag }

// v: an integer variable; one in six is registered under a name that is also an operator of the same expression
// (names are looked up by position: a name in operator position is the operator, anywhere else the variable)
func (g *c16Gen) v() *Node {
	if g.r.Intn(6) == 0 {
		return Var([]string{"add", "ci", "cpos", "in", "ge", "not"}[g.r.Intn(6)], TInt)
	}
	return Var(fmt.Sprintf("x%d", g.r.Intn(8)), TInt)
}
func (g *c16Gen) bv() *Node { return Var(fmt.Sprintf("p%d", g.r.Intn(4)), TBool) }

// operand: a boolean expression carrying a unique tag
func (g *c16Gen) operand(d int) *Node {
	t := Lit(g.nextTag())
	switch k := g.r.Intn(10); {
	case k < 3 || d <= 0:
		return Op([]string{">", "<", "!=", "ge"}[g.r.Intn(4)], TBool, g.v(), t)
	case k < 4:
		return Op("=", TBool, Op([]string{"+", "*", "add"}[g.r.Intn(3)], TInt, g.v(), g.v()), t)
	case k < 5:
		if g.r.Intn(3) == 0 {
			// a string literal that spells a name with a cost entry (a variable, an operator, a class key): data, not a
			// mention of that name
			lit := []string{"x0", "x1", "x2", "x3", "q0", "q1", ">", "+", "add", "not", "variable", "operator", "and", "if"}[g.r.Intn(14)]
			return Op("and", TBool, Op("=", TBool, Var(fmt.Sprintf("s%d", g.r.Intn(3)), TStr), Lit(lit)), Op("<", TBool, Lit(int64(0)), t))
		}
		return Op("in", TBool, g.v(), Lit([]int64{t.Val.(int64), t.Val.(int64) + 1}))
	case k < 6:
		if g.r.Intn(3) == 0 {
			// a registered operator called without arguments: an operator (its cost entry counts), not a leaf
			return Op("<", TBool, Op([]string{"cz", "_cid"}[g.r.Intn(2)], TInt), t)
		}
		return Op("cpos", TBool, Op("+", TInt, g.v(), t))
	case k < 7:
		switch g.r.Intn(4) {
		case 0:
			// an if whose condition is a compile-time constant (literal or ConstantMap flag)
			c := Lit(g.r.Intn(2) == 0)
			if g.r.Intn(2) == 0 {
				name := []string{"KT", "KF"}[g.r.Intn(2)]
				c = ConstRef(name, name == "KT")
			}
			return If(c, g.operand(d-1), g.operand(d-1))
		case 1:
			// ... or a foldable comparison of constants
			return If(Op(">", TBool, Lit(int64(g.r.Intn(3))), Lit(int64(1))), g.operand(d-1), g.operand(d-1))
		}
		return If(Op(">", TBool, g.v(), t), g.operand(d-1), g.operand(d-1))
	case k < 8:
		return Op("not", TBool, Op("=", TBool, Op("ci", TInt, g.v(), t), Lit(int64(0))))
	default:
		return g.andOr(d - 1)
	}
}

func (g *c16Gen) andOr(d int) *Node {
	n := 2 + g.r.Intn(5)
	// bare leaves (variables q0..q11, at most one constant), distinct within the node: with exactly two of them the
	// node is a two-leaf operator that FastEvaluation marks as fast
	perm := g.r.Perm(12)
	bare := 0
	allBare := g.r.Intn(5) == 0
	if allBare {
		n = 2 + g.r.Intn(2)
	}
	ch := make([]*Node, n)
	usedConst := false
	for i := range ch {
		if allBare || g.r.Intn(6) == 0 {
			if !usedConst && g.r.Intn(5) == 0 {
				usedConst = true
				ch[i] = Lit(g.r.Intn(2) == 0)
			} else {
				ch[i] = Var(fmt.Sprintf("q%d", perm[bare]), TBool)
				bare++
			}
			continue
		}
		ch[i] = g.operand(d)
	}
	if !allBare && g.r.Intn(8) == 0 {
		// one operand is a constant sub-expression that fails (at compile time, when folded; at run time, when reached):
		// it is an operand like any other, its siblings are ordered by their costs all the same
		t := g.nextTag()
		bad := []*Node{
			Op("in", TBool, Lit(t), Lit([]string{"a", "b"})),
			Op("spos", TBool, Lit("not a number")),
			Op("=", TBool, Lit([]int64{t, 1}), Lit([]int64{t, 1})),
			Op(">", TBool, Lit("s"), Lit(t)),
		}[g.r.Intn(4)]
		ch[g.r.Intn(len(ch))] = bad
	}
	return Op([]string{"and", "or", "&&", "||", "&", "|"}[g.r.Intn(6)], TBool, ch...)
}

// tagKey: the sorted tag literals of a sub-tree (unique per tagged operand)
func tagKey(n *Node) string {
	var tags []int64
	n.Walk(func(x *Node) {
		if x.Kind == KLit {
			switch v := x.Val.(type) {
			case int64:
				if v >= 1000 {
					tags = append(tags, v)
				}
			case []int64:
				for _, e := range v {
					if e >= 1000 {
						tags = append(tags, e)
					}
				}
			}
		}
	})
	if len(tags) == 0 {
		// an untagged operand (a bare variable or constant): identified by its text, unique within its and/or by construction
		// (order-insensitive: a nested untagged and/or may itself be reordered)
		var leaves []string
		n.Walk(func(x *Node) {
			if x.IsLeaf() {
				leaves = append(leaves, x.Prefix())
			}
		})
		sort.Strings(leaves)
		return "leaf:" + n.Name + ":" + strings.Join(leaves, " ")
	}
	sort.Slice(tags, func(i, j int) bool { return tags[i] < tags[j] })
	s := make([]string, len(tags))
	for i, t := range tags {
		s[i] = strconv.FormatInt(t, 10)
	}
	return strings.Join(s, ",")
}

func mentions(n *Node, name string) bool {
	found := false
	n.Walk(func(x *Node) {
		if (x.Kind == KVar || x.Kind == KOp) && x.Name == name {
			found = true
		}
	})
	return found
}

func countMentions(n *Node, name string) int {
	c := 0
	n.Walk(func(x *Node) {
		if (x.Kind == KVar || x.Kind == KOp) && x.Name == name {
			c++
		}
	})
	return c
}

// samePermuted: is b equal to a up to permutation of and/or operands? Returns "" or a description.
func samePermuted(a, b *Node) string {
	if a.Kind != b.Kind || a.Name != b.Name || len(a.Ch) != len(b.Ch) {
		return fmt.Sprintf("node %s/%d became %s/%d", a.Name, len(a.Ch), b.Name, len(b.Ch))
	}
	if a.Kind == KLit {
		if !valEq(a.Val, b.Val) {
			return fmt.Sprintf("literal %s became %s", valText(a.Val), valText(b.Val))
		}
		return ""
	}
	if a.IsAndOr() {
		byKey := map[string][]*Node{}
		for _, c := range b.Ch {
			k := tagKey(c)
			byKey[k] = append(byKey[k], c)
		}
		for _, c := range a.Ch {
			k := tagKey(c)
			l := byKey[k]
			if len(l) == 0 {
				return fmt.Sprintf("operand with tags [%s] of %s is missing after reordering", k, a.Name)
			}
			byKey[k] = l[1:]
			if d := samePermuted(c, l[0]); d != "" {
				return d
			}
		}
		return ""
	}
	for i := range a.Ch {
		if d := samePermuted(a.Ch[i], b.Ch[i]); d != "" {
			if tagKey(a.Ch[i]) != tagKey(b.Ch[i]) {
				return fmt.Sprintf("operand order of %s changed (position %d)", a.Name, i)
			}
			return d
		}
	}
	return ""
}

// forEachAndOr walks two permuted-equal trees in parallel and calls f on every pair of corresponding and/or nodes.
func forEachAndOr(a, b *Node, f func(a, b *Node)) {
	if a.IsAndOr() {
		f(a, b)
		// siblings with equal keys (two untagged and/or nodes over the same bare leaves) have no unambiguous
		// counterpart in the other tree: they are left out
		byKey := map[string]*Node{}
		cnt := map[string]int{}
		for _, c := range b.Ch {
			k := tagKey(c)
			byKey[k] = c
			cnt[k]++
		}
		for _, c := range a.Ch {
			k := tagKey(c)
			if o := byKey[k]; o != nil && cnt[k] == 1 {
				forEachAndOr(c, o, f)
			}
		}
		return
	}
	for i := range a.Ch {
		if i < len(b.Ch) {
			forEachAndOr(a.Ch[i], b.Ch[i], f)
		}
	}
}

// posOf: position of every operand by key; operands whose key is not unique among their siblings are left out
func posOf(n *Node) map[string]int {
	m := map[string]int{}
	cnt := map[string]int{}
	for i, c := range n.Ch {
		k := tagKey(c)
		m[k] = i
		cnt[k]++
	}
	for k, c := range cnt {
		if c > 1 {
			delete(m, k)
		}
	}
	return m
}

func c16Compile(w *W, tree *Node, opts OptSet, costs map[string]float64) (*Variant, bool) {
	cfg := cfgFor(tree, opts, false)
	cfg.Costs = costs
	v, ok := compileVariant(w, tree, tree.Prefix(), cfg, "c16")
	if !ok {
		return nil, false
	}
	if v.DumpErr != nil {
		w.Fail("dump-unreadable", "dump unreadable: %v\n%s", v.DumpErr, v.Dump)
		return nil, false
	}
	return v, true
}

func c16Costs(r *rand.Rand, w *W) map[string]float64 {
	m := map[string]float64{}
	vals := []float64{0, 1, 2, 3, 5, 7, 10, 20, 50, 100, 1000, -1, -5, -50, 0.5}
	for i := 0; i < 8; i++ {
		if r.Intn(3) == 0 {
			m[fmt.Sprintf("x%d", i)] = vals[r.Intn(len(vals))]
		}
	}
	for i := 0; i < 12; i++ {
		if r.Intn(3) == 0 {
			m[fmt.Sprintf("q%d", i)] = vals[r.Intn(len(vals))]
		}
	}
	for _, o := range []string{">", "<", "=", "+", "*", "in", "cpos", "ci", "not", "and", "or", "if", "cz", "_cid"} {
		if r.Intn(5) == 0 {
			m[o] = vals[r.Intn(len(vals))]
		}
	}
	if r.Intn(3) == 0 {
		m["variable"] = vals[r.Intn(len(vals))]
		w.Inc("class_cost_entries")
	}
	if r.Intn(3) == 0 {
		m["operator"] = vals[r.Intn(len(vals))]
		w.Inc("class_cost_entries")
	}
	for _, v := range m {
		if v < 0 {
			w.Inc("negative_cost_entries")
			break
		}
	}
	return m
}

func c16Run(w *W, idx int) {
	r := w.Rand(idx)
	g := &c16Gen{r: r, tag: 1000}
	switch idx % 3 {
	case 0:
		c16Stability(w, r, g)
	default:
		c16Laws(w, r, g)
	}
}

func otherOpts(r *rand.Rand) OptSet {
	if r.Intn(2) == 0 {
		return OptNone
	}
	return OptSet(r.Intn(8)) // any subset of cf, rn, fe
}

// permutation + monotonicity + large cost
func c16Laws(w *W, r *rand.Rand, g *c16Gen) {
	tree := g.andOr(2)
	switch r.Intn(4) {
	case 0:
		tree = If(g.operand(1), tree, g.andOr(1))
	case 1:
		tree = Op("not", TBool, tree)
	}
	src := tree.Prefix()
	w.Inc("programs")
	base := otherOpts(r)
	costs := c16Costs(r, w)
	off, ok1 := c16Compile(w, tree, base, costs)
	on, ok2 := c16Compile(w, tree, base|OptRO, costs)
	if !ok1 || !ok2 {
		return
	}
	// the same subset selected by a directive on top of a Config that switches Reordering off explicitly: the cost map
	// of the Config applies all the same
	{
		dcfg := cfgFor(tree, base&^OptRO, false)
		dcfg.Costs = costs
		eff := base | OptRO
		dcfg.Directive = &eff
		if dv, ok := compileVariant(w, tree, eff.Directive(r)+src, dcfg, "c16-directive"); ok {
			w.Inc("directive_reordering_with_costs")
			if dv.Dump != on.Dump {
				w.Fail("directive-reordering-differs-from-option", "Reordering switched on by a directive (Config: reordering false) orders differently than Reordering switched on in the Config, same cost map\nsource: %s\ncosts: %v\nby directive: %s\nby option:    %s", firstN(src, 1500), costs, oneLine(dv.Dump), oneLine(on.Dump))
			}
		}
	}
	w.Sample("laws", firstN(src, 300))
	w.Inc("permutation_checks")
	if d := samePermuted(off.DumpTree, on.DumpTree); d != "" {
		w.Fail("not-a-permutation-of-andor-operands", "%s\nsource: %s\nconfig: %s\nwithout reordering: %s\nwith reordering:    %s", d, src, on.Cfg, oneLine(off.Dump), oneLine(on.Dump))
		return
	}
	if off.Dump != on.Dump {
		w.Inc("reordered_programs")
		w.Nontrivial(src, fmt.Sprint(costs))
	}
	// pairs of cost maps differing in one explicit entry
	names := map[string]bool{}
	off.DumpTree.Walk(func(n *Node) {
		if n.Kind == KVar || n.Kind == KOp {
			names[n.Name] = true
		}
	})
	var nl []string
	for n := range names {
		nl = append(nl, n)
	}
	sort.Strings(nl)
	for trial := 0; trial < 3 && len(nl) > 0; trial++ {
		n := nl[r.Intn(len(nl))]
		lo := []float64{-50, -1, 0, 1, 5, 10}[r.Intn(6)]
		hi := lo + []float64{0.5, 1, 3, 10, 100, 10000}[r.Intn(6)]
		large := trial == 2
		if large {
			hi = 1e15
			if r.Intn(2) == 0 {
				hi = math.Inf(1)
			}
		}
		m1, m2 := map[string]float64{}, map[string]float64{}
		for k, v := range costs {
			m1[k], m2[k] = v, v
		}
		m1[n], m2[n] = lo, hi
		// next to an infinite cost, the largest finite one for another name: an operand that mentions that name once stays
		// finite (costs add up), so the infinitely expensive operand still comes after it
		hugeOther := ""
		if large && math.IsInf(hi, 1) && len(nl) > 1 && r.Intn(2) == 0 {
			for _, c := range nl[r.Intn(len(nl)):] {
				if c != n {
					hugeOther = c
					break
				}
			}
			if hugeOther != "" {
				m1[hugeOther], m2[hugeOther] = math.MaxFloat64, math.MaxFloat64
				w.Inc("infinite_cost_next_to_largest_finite")
			}
		}
		a, okA := c16Compile(w, tree, base|OptRO, m1)
		b, okB := c16Compile(w, tree, base|OptRO, m2)
		if !okA || !okB {
			continue
		}
		if d := samePermuted(off.DumpTree, a.DumpTree); d != "" {
			w.Fail("not-a-permutation-of-andor-operands", "%s\nsource: %s\ncosts: %v", d, src, m1)
			continue
		}
		if d := samePermuted(a.DumpTree, b.DumpTree); d != "" {
			w.Fail("not-a-permutation-of-andor-operands", "%s\nsource: %s\ncosts: %v", d, src, m2)
			continue
		}
		w.Inc("monotonicity_pairs")
		if a.Dump != b.Dump {
			w.Inc("costmap_pairs_changing_order")
		}
		forEachAndOr(a.DumpTree, b.DumpTree, func(x, y *Node) {
			pa, pb := posOf(x), posOf(y)
			for _, c1 := range x.Ch {
				for _, c2 := range x.Ch {
					k1, k2 := tagKey(c1), tagKey(c2)
					if k1 == k2 {
						continue
					}
					if _, ok := pa[k1]; !ok {
						continue
					}
					if _, ok := pa[k2]; !ok {
						continue
					}
					m1n, m2n := mentions(c1, n), mentions(c2, n)
					switch {
					case m1n && !m2n:
						// c1 mentions n, c2 does not: raising the cost must not move c1 ahead of c2
						if pa[k1] > pa[k2] && pb[k1] < pb[k2] {
							w.Fail("raising-cost-moves-operand-ahead", "raising the cost of %q from %v to %v moved the operand with tags [%s] (mentions it) ahead of [%s] (does not)\nsource: %s\nconfig: %s\nbefore: %s\nafter:  %s", n, lo, hi, k1, k2, src, a.Cfg, oneLine(a.Dump), oneLine(b.Dump))
						}
						if large && (hugeOther == "" || countMentions(c2, hugeOther) <= 1) {
							w.Inc("large_cost_checks")
							if pb[k1] < pb[k2] {
								w.Fail("large-cost-operand-not-last", "with cost %v for %q the operand with tags [%s] (mentions it) is still before [%s] (does not)\nsource: %s\nconfig: %s\ndump: %s", hi, n, k1, k2, src, b.Cfg, oneLine(b.Dump))
							}
						}
					case !m1n && !m2n:
						if (pa[k1] < pa[k2]) != (pb[k1] < pb[k2]) {
							w.Fail("unrelated-siblings-swapped", "changing the cost of %q from %v to %v swapped the operands [%s] and [%s], neither of which mentions it\nsource: %s\nbefore: %s\nafter:  %s", n, lo, hi, k1, k2, src, oneLine(a.Dump), oneLine(b.Dump))
						}
					}
				}
			}
		})
	}
}

// stability with many equal-cost operands + fetch order
func c16Stability(w *W, r *rand.Rand, g *c16Gen) {
	k := 13 + r.Intn(108)
	if r.Intn(4) == 0 {
		k = 2 + r.Intn(11)
	}
	nClasses := 1 + r.Intn(3)
	isOr := r.Intn(2) == 0
	// class c: a fixed shape; operands of one class differ only in tag and in (equally priced) variable
	// equally priced variables; two of the eight carry names that are also operators of the same expression
	// (a name is the operator in operator position and the variable everywhere else)
	varName := func(vi int) string {
		switch vi {
		case 4:
			return "operator" // a variable that happens to be called like the class key of the other kind
		case 6:
			return "add"
		case 7:
			return "not"
		}
		return fmt.Sprintf("x%d", vi)
	}
	shape := func(c int, t int64, vi int) *Node {
		v := Var(varName(vi), TInt)
		switch c {
		case 0:
			return Op(">", TBool, v, Lit(t))
		case 1:
			return Op(">", TBool, Op("add", TInt, v, Lit(int64(1))), Lit(t))
		default:
			return Op("not", TBool, Op("=", TBool, Op("*", TInt, v, v.Clone()), Lit(t)))
		}
	}
	ch := make([]*Node, k)
	class := make([]int, k)
	perClass := map[int]int{}
	for i := range ch {
		class[i] = r.Intn(nClasses)
		perClass[class[i]]++
		ch[i] = shape(class[i], g.nextTag(), r.Intn(8))
	}
	name := "and"
	if isOr {
		name = "or"
	}
	tree := Op(name, TBool, ch...)
	maxClass := 0
	for _, c := range perClass {
		if c > maxClass {
			maxClass = c
		}
	}
	w.Inc("programs")
	if maxClass >= 13 {
		w.Inc("programs_13plus_equal_cost")
	}
	// cost map without per-variable entries (all x-variables cost the same)
	costs := map[string]float64{}
	if r.Intn(2) == 0 {
		costs["variable"] = []float64{0, 3, 100, -2}[r.Intn(4)]
	}
	for _, o := range []string{">", "*", "="} { // no entries for add/not: those names are also variables here
		if r.Intn(3) == 0 {
			costs[o] = []float64{0, 1, 30, 500, -4}[r.Intn(5)]
		}
	}
	base := OptNone
	if r.Intn(3) == 0 {
		base = OptFE
	}
	on, ok := c16Compile(w, tree, base|OptRO, costs)
	if !ok {
		return
	}
	w.Sample("stability", firstN(tree.Prefix(), 200))
	if maxClass >= 13 || (len(perClass) >= 2 && k >= 3) {
		w.Nontrivial(tree.Prefix(), fmt.Sprint(costs))
	}
	if d := samePermuted(tree, on.DumpTree); d != "" {
		w.Fail("not-a-permutation-of-andor-operands", "%s\nsource: %s\ndump: %s", d, firstN(tree.Prefix(), 2000), firstN(oneLine(on.Dump), 2000))
		return
	}
	srcPos := posOf(tree)
	dumpPos := posOf(on.DumpTree)
	for i := 0; i < k; i++ {
		for j := i + 1; j < k; j++ {
			if class[i] != class[j] {
				continue
			}
			w.Inc("stability_pairs")
			ki, kj := tagKey(ch[i]), tagKey(ch[j])
			if (srcPos[ki] < srcPos[kj]) != (dumpPos[ki] < dumpPos[kj]) {
				w.Fail("equal-cost-operands-swapped", "operands [%s] and [%s] are cost-isomorphic (same shape, same names, equally priced variables) but swapped places; %d operands, %d in this cost class\ncosts: %v\nsource: %s\ndump: %s", ki, kj, k, perClass[class[i]], costs, firstN(tree.Prefix(), 2500), firstN(oneLine(on.Dump), 2500))
				return
			}
		}
	}
	// fetch order at run time equals the dumped order: bind so that every operand is evaluated
	vals := map[string]interface{}{}
	for i := 0; i < 8; i++ {
		if isOr {
			vals[varName(i)] = int64(-5) // all comparisons false / not(=) ... keep evaluating
		} else {
			vals[varName(i)] = int64(1 << 40)
		}
	}
	rec := &Recorder{}
	o, _ := callExpr(on.E, CallEval, fetcherFor(Binding{Vals: vals}, rec), nil, false)
	w.Evals++
	if o.Panic != nil || o.Err != nil {
		return
	}
	var want []string
	for _, c := range on.DumpTree.Ch {
		c.Walk(func(n *Node) {
			if n.Kind == KVar {
				want = append(want, n.Name)
			}
		})
	}
	var got []string
	for _, e := range rec.Effects {
		if e.Get {
			got = append(got, e.Name)
		}
	}
	// evaluation may stop early when an operand decides; compare the common prefix length = len(got)
	w.Inc("fetch_order_checks")
	if len(got) > len(want) {
		w.Fail("fetch-order-differs-from-dump", "more fetches (%d) than variables in the dumped program (%d)", len(got), len(want))
		return
	}
	for i := range got {
		if got[i] != want[i] {
			w.Fail("fetch-order-differs-from-dump", "fetch %d is %s but the dumped order has %s\nfetches: %v\ndump: %s", i, got[i], want[i], got, firstN(oneLine(on.Dump), 2000))
			return
		}
	}
}
