package main

// C04 — TryEval answers are never contradicted by fetching more variables.
// C05 — TryEval is at least as informative as three-valued (Kleene) evaluation.

import (
	"fmt"
	"math/rand"
	"sort"

	"github.com/onheap/eval"
)

func init() {
	register(&Prop{
		ID: "C04",
		Rule: "Each program is compiled under all 16 optimization subsets (a quarter also with ReportEvent); for each value binding and each split of the variables into available/unavailable " +
			"(every split for <=5 variables, PRNG-chosen otherwise; the enumerated small trees use every {true,false,unavailable} assignment) TryEval runs with a truthful fetcher. A definite answer is compared with " +
			"Eval of the same compiled program on every completion of the unavailable variables (all when the domain product <= cap, else PRNG-chosen; incl. wrong-typed values in one stratum): every succeeding completion must give the same value. " +
			"With everything available TryEval must agree with Eval; along every covering pair A < A+{x} two definite answers must be equal. " +
			"A case is non-trivial when TryEval is definite with >=1 unavailable variable and >=2 completions were evaluated; distinct = distinct (source, subset, binding, split).",
		Assumptions: []string{
			"truthful fetchers only (harness RecFetcher, stock MapVarFetcher); SliceVarFetcher.Cached reports every in-range key as cached, which is outside the premise and not judged",
			"completions are judged on the same compiled program, as the property states",
		},
		NumCases: func(tier string) int {
			if tier == "thorough" {
				return c01EnumCases("thorough") + 200000
			}
			return c01EnumCases("quick") + 2500
		},
		Run:    func(w *W, idx int) { tryRun(w, idx, 4) },
		Floors: c04Floors,
		Extra: func(m *Merged, tier string) map[string]interface{} {
			return map[string]interface{}{"exhaustive_subspaces": []string{"every boolean-core tree with <=2 internal nodes x every leaf labelling x every {true,false,unavailable} assignment x all 16 optimization subsets; every completion of the unavailable variables over {true,false}/{1,0}"}}
		},
	})
	register(&Prop{
		ID: "C05",
		Rule: "Total programs only (no failing sub-expression: divisors are non-zero literals, operands well-typed, no failing operators). For each program x 16 optimization subsets x value binding x availability split " +
			"an independent three-valued (strong Kleene for and/or, strict otherwise, if follows a definite condition) evaluator decides what must be definite; TryEval must then return exactly that value, never DNE or an error; " +
			"TryEvalBool must return ErrDNE exactly when TryEval returns DNE; an undecided case must be DNE, not an error. Enumerated small trees use every {true,false,unavailable} assignment. " +
			"A case is non-trivial when Kleene is definite although >=1 unavailable variable is evaluated before the deciding operand (reference short-circuit evaluation of the same split hits DNE first); distinct = distinct (source, subset, binding, split).",
		Assumptions: []string{
			"Kleene evaluator in ref.go is the trusted base",
			"truthful fetcher; programs are total by construction of the generator",
		},
		NumCases: func(tier string) int {
			if tier == "thorough" {
				return c01EnumCases("thorough") + 300000
			}
			return c01EnumCases("quick") + 3000
		},
		Run:    func(w *W, idx int) { tryRun(w, idx, 5) },
		Floors: c05Floors,
		Extra: func(m *Merged, tier string) map[string]interface{} {
			return map[string]interface{}{"exhaustive_subspaces": []string{"every boolean-core tree with <=2 internal nodes x every leaf labelling x every {true,false,unavailable} assignment x all 16 optimization subsets, each compared with the Kleene value"}}
		},
	})
}

func tryRun(w *W, idx int, prop int) {
	ne := c01EnumCases(w.Tier)
	if idx < ne {
		shapes := enumShapesFor(w.Tier)
		s := shapes[idx/enumChunks]
		labellingsFor(w, s, shapeInternal(s), idx%enumChunks, func(labels []int) {
			tree, vars := s.build(labels)
			if len(vars) == 0 {
				return
			}
			tryEnumProgram(w, tree, vars, prop)
		})
		return
	}
	r := w.Rand(idx)
	k := idx - ne
	if k%13 == 12 {
		tryWide(w, r, prop)
		return
	}
	if k%13 == 11 {
		trySliceFetcher(w, r, prop)
		return
	}
	if k%13 == 10 {
		tryRCOLoop(w, r, prop)
		return
	}
	var names []string
	if prop == 5 {
		names = []string{"skeleton", "two-leaf", "mixed", "skeleton", "two-leaf", "deciding-late"}
	} else {
		names = []string{"skeleton", "two-leaf", "mixed", "failing", "skeleton", "deciding-late", "wide-deep", "wrong-type-completions", "if-result-then-failing"}
	}
	name := names[k%len(names)]
	var tree *Node
	switch name {
	case "deciding-late":
		tree = decidingLate(r)
	case "if-result-then-failing":
		tree = ifResultThenFailing(r)
	case "wrong-type-completions":
		g := stratumByName("mixed").Make(r)
		tree = g.Root(2 + r.Intn(3))
	default:
		s := stratumByName(name)
		g := s.Make(r)
		if prop == 5 {
			g.Fail = 0
		}
		if name == "wide-deep" {
			g.Budget = 300
		}
		g.ISetVars, g.SSetVars = nil, nil
		g.Remote = r.Intn(3) == 0
		tree = g.Root(s.Dep(r))
	}
	tryRandomProgram(w, r, name, tree, prop)
}

// decidingLate: deciding operands placed after unavailable ones, at depth >= 2.
func decidingLate(r *rand.Rand) *Node {
	bv := func(i int) *Node { return Var(fmt.Sprintf("b%d", i), TBool) }
	iv := func(i int) *Node { return Op(">", TBool, Var(fmt.Sprintf("i%d", i), TInt), Lit(int64(0))) }
	leaf := func(i int) *Node {
		if r.Intn(3) == 0 {
			return iv(i % 3)
		}
		return bv(i % 5)
	}
	and := func(ch ...*Node) *Node { return Op([]string{"and", "&", "&&"}[r.Intn(3)], TBool, ch...) }
	or := func(ch ...*Node) *Node { return Op([]string{"or", "|", "||"}[r.Intn(3)], TBool, ch...) }
	not := func(c *Node) *Node { return Op("not", TBool, c) }
	switch r.Intn(8) {
	case 0:
		return and(leaf(0), or(leaf(1), leaf(2)), and(leaf(3), leaf(4)))
	case 1:
		return or(and(leaf(0), leaf(1)), and(leaf(2), or(leaf(3), leaf(4))))
	case 2:
		return and(leaf(0), If(leaf(1), leaf(2), leaf(3)), leaf(4))
	case 3:
		return If(and(leaf(0), leaf(1)), or(leaf(2), leaf(3)), and(leaf(2), leaf(4)))
	case 4:
		return and(not(or(leaf(0), leaf(1))), leaf(2), not(and(leaf(3), leaf(4))))
	case 5:
		return or(leaf(0), and(leaf(1), or(leaf(2), and(leaf(3), leaf(4)))))
	case 6:
		return and(or(leaf(0), leaf(1)), or(leaf(2), leaf(3)), or(leaf(4), leaf(0)))
	default:
		return and(If(leaf(0), and(leaf(1), leaf(2)), or(leaf(1), leaf(3))), Op("=", TBool, leaf(4), or(leaf(2), leaf(0))))
	}
}

// ifResultThenFailing: an and/or whose deciding operand is the result of an if (nested 1-3 deep, in either
// branch), followed by operands that fail or have effects when evaluated.
func ifResultThenFailing(r *rand.Rand) *Node {
	bv := func() *Node { return Var(fmt.Sprintf("b%d", r.Intn(5)), TBool) }
	var nest func(d int) *Node
	nest = func(d int) *Node {
		if d == 0 {
			return bv()
		}
		inner := nest(d - 1)
		other := Node(*Lit(r.Intn(2) == 0))
		o := &other
		if r.Intn(2) == 0 {
			o = bv()
		}
		if r.Intn(2) == 0 {
			return If(bv(), inner, o)
		}
		return If(bv(), o, inner)
	}
	failing := func() *Node {
		switch r.Intn(4) {
		case 0:
			return Op("cfail", TBool)
		case 1:
			return Op(">", TBool, Op("/", TInt, Lit(int64(1)), Lit(int64(0))), Lit(int64(1)))
		case 2:
			return Op("cb", TBool, bv())
		default:
			return Op("not", TBool, Lit(int64(1)))
		}
	}
	name := []string{"and", "or", "&&", "||"}[r.Intn(4)]
	ch := []*Node{nest(1 + r.Intn(3))}
	if r.Intn(3) == 0 {
		ch = append([]*Node{bv()}, ch...)
	}
	for i := 0; i < 1+r.Intn(2); i++ {
		ch = append(ch, failing())
	}
	t := Op(name, TBool, ch...)
	if r.Intn(3) == 0 {
		t = Op([]string{"and", "or"}[r.Intn(2)], TBool, t, bv())
	}
	return t
}

type tryVariant struct {
	v      *Variant
	events bool
}

func tryVariants(w *W, r *rand.Rand, tree *Node, withEvents bool) []tryVariant {
	var res []tryVariant
	for _, v := range optVariants(w, r, tree, r.Intn(2) == 0, 0, false, false) {
		res = append(res, tryVariant{v: v})
	}
	if withEvents {
		ev := 1 + r.Intn(2)
		for _, o := range []OptSet{OptNone, OptAll, OptSet(r.Intn(16))} {
			cfg := cfgFor(tree, o, false)
			cfg.Events = ev
			if v, ok := compileVariant(w, tree, tree.Prefix(), cfg, "events"); ok {
				res = append(res, tryVariant{v: v, events: true})
			}
		}
	}
	return res
}

// embedFetcher: a caller's fetcher built on top of the library's map-backed one (embedding it), with availability of
// its own: everything is physically in the embedded store, Cached says what may be used.
type embedFetcher struct {
	eval.MapVarFetcher
	avail map[string]bool
}

func (f embedFetcher) Cached(_ eval.VariableKey, name string) bool {
	_, ok := f.MapVarFetcher[name]
	return ok && (f.avail == nil || f.avail[name])
}

func tryCall(w *W, tv tryVariant, b Binding, kind CallKind) Outcome {
	if kind == CallTryEval && b.Avail != nil && !tv.events && w.Evals%5 == 1 {
		ef := embedFetcher{MapVarFetcher: eval.NewMapVarFetcher(b.Vals), avail: b.Avail}
		o := guard(func() (eval.Value, error) { return tv.v.E.TryEval(&eval.Ctx{VariableFetcher: ef}) })
		w.Evals++
		w.Inc("calls_with_embedding_fetcher")
		if o.Panic != nil {
			w.Fail("panic/"+normPanic(o.Panic)+"@"+panicSite(o.Stack), "evaluation panicked: %v\n%s\n%s", o.Panic, describeCase(tv.v.Src, tv.v.Cfg, b), o.Stack)
		}
		return o
	}
	tr := NewTracer()
	tr.MaxStack = tv.v.MaxStack
	f := fetcherFor(b, nil)
	if kind == CallTryEval && b.Avail != nil && w.Evals%3 == 0 {
		f.MarkerDNE = true
		w.Inc("unavailable_marked_by_dne_value")
	}
	// a fetcher indexed by key (the documented fast path) relies on being asked with the key the Config registered
	f.Keys = tv.v.CC.VariableKeyMap
	o, _ := callExpr(tv.v.E, kind, f, tr, tv.events)
	w.Evals++
	if f.KeyError != "" {
		w.Fail("fetcher-asked-with-wrong-key", "%s\n%s", f.KeyError, describeCase(tv.v.Src, tv.v.Cfg, b))
	}
	if tr.Bad != "" {
		w.Fail("step-monitor/"+stepSig(tr.Bad), "%s\n%s", tr.Bad, describeCase(tv.v.Src, tv.v.Cfg, b))
	}
	if o.Panic != nil {
		w.Fail("panic/"+normPanic(o.Panic)+"@"+panicSite(o.Stack), "evaluation panicked: %v\n%s\n%s", o.Panic, describeCase(tv.v.Src, tv.v.Cfg, b), o.Stack)
	}
	return o
}

func definite(o Outcome) bool { return o.Panic == nil && o.Err == nil && !isDNE(o.V) }

func unavailableOf(b Binding, order []string) []string {
	var un []string
	for _, v := range order {
		if b.Avail != nil && !b.Avail[v] {
			un = append(un, v)
		}
	}
	return un
}

// completionDomain: candidate values for an unavailable variable.
func completionDomain(name string, ty Ty, ints []int64, strs []string, wrongTypes bool) []interface{} {
	var d []interface{}
	switch ty {
	case TBool:
		d = []interface{}{true, false}
	case TInt:
		seen := map[int64]bool{}
		add := func(x int64) {
			if !seen[x] && len(d) < 7 {
				seen[x] = true
				d = append(d, x)
			}
		}
		add(0)
		add(1)
		add(-1)
		for _, l := range ints {
			add(l)
			add(l + 1)
			add(l - 1)
		}
	case TStr:
		d = []interface{}{"", "a"}
		for i, s := range strs {
			if i < 2 {
				d = append(d, s)
			}
		}
	case TIList:
		d = []interface{}{[]int64{}, []int64{1, 2}}
		if len(ints) > 0 {
			d = append(d, []int64{ints[0]})
		}
	case TSList:
		d = []interface{}{[]string{}, []string{"a"}}
		if len(strs) > 0 {
			d = append(d, []string{strs[0]})
		}
	default:
		d = []interface{}{true}
	}
	if wrongTypes {
		d = append(d, "wrong", int64(7), true, []int64{1})
	}
	return d
}

// checkCompletions: C04's main clause for one definite TryEval answer.
func checkCompletions(w *W, r *rand.Rand, tv tryVariant, tree *Node, tys map[string]Ty, b Binding, un []string, answer interface{}, wrongTypes bool, cap int) int {
	ints, strs := literalPools(tree)
	doms := make([][]interface{}, len(un))
	total := 1
	for i, u := range un {
		doms[i] = completionDomain(u, tys[u], ints, strs, wrongTypes)
		if total <= cap {
			total *= len(doms[i])
		}
	}
	n := total
	exhaustive := total <= cap
	if !exhaustive {
		n = cap
	}
	done := 0
	for k := 0; k < n; k++ {
		vals := map[string]interface{}{}
		for kk, vv := range b.Vals {
			vals[kk] = vv
		}
		x := k
		for i, u := range un {
			if exhaustive {
				vals[u] = doms[i][x%len(doms[i])]
				x /= len(doms[i])
			} else {
				vals[u] = doms[i][r.Intn(len(doms[i]))]
			}
		}
		cb := Binding{Vals: vals}
		o := tryCall(w, tv, cb, CallEval)
		done++
		if o.Panic != nil || o.Err != nil {
			continue
		}
		w.Inc("completions_succeeding")
		if !valEq(o.V, answer) {
			w.Fail("tryeval-contradicted", "TryEval answered %s with %v unavailable, but Eval of the same program gives %s under the completion %s\n%s\ndump: %s",
				valText(answer), un, valText(o.V), cb, describeCase(tv.v.Src, tv.v.Cfg, b), oneLine(tv.v.Dump))
			return done
		}
	}
	return done
}

func tryEnumProgram(w *W, tree *Node, vars []string, prop int) {
	r := w.Rand(w.Case)
	tvs := tryVariants(w, r, tree, false)
	w.Inc("programs")
	w.Inc("programs_enum")
	if len(tvs) == 0 {
		return
	}
	src := tree.Prefix()
	w.Sample("enum", src)
	_, tys := tree.Vars()
	na := ipow(3, len(vars))
	for a := 0; a < na; a++ {
		b := enumAssignment(vars, a, 3)
		un := unavailableOf(b, vars)
		kenv := refEnv(b)
		kv, kerr := kenv.Kleene(tree)
		for vi, tv := range tvs {
			o := tryCall(w, tv, b, CallTryEval)
			if o.Panic != nil {
				continue
			}
			if prop == 5 {
				judgeKleene(w, tv, tree, b, un, kv, kerr, o, "enum")
			} else if len(vars) <= 4 || (a+vi)%4 == 0 {
				// completions are the expensive part: with many variables a quarter of the (assignment, variant) pairs is completed
				judgeSoundness(w, r, tv, tree, tys, b, un, o, false, 64, "enum")
			}
		}
	}
}

func judgeKleene(w *W, tv tryVariant, tree *Node, b Binding, un []string, kv interface{}, kerr error, o Outcome, stratum string) {
	if kerr != nil {
		w.Inc("skipped_not_total")
		return
	}
	if o.Err != nil {
		w.Fail("tryeval-error-on-total-program/"+stratum, "TryEval failed with %q on a program without failing sub-expressions (three-valued value: %s)\n%s\ndump: %s", o.Err, valText(kv), describeCase(tv.v.Src, tv.v.Cfg, b), oneLine(tv.v.Dump))
		return
	}
	if kv != refDNE {
		w.Inc("kleene_definite")
		if isDNE(o.V) {
			w.Fail("tryeval-less-informative-than-kleene/"+stratum, "three-valued evaluation gives %s but TryEval returned DNE\n%s\ndump: %s", valText(kv), describeCase(tv.v.Src, tv.v.Cfg, b), oneLine(tv.v.Dump))
		} else if !valEq(o.V, kv) {
			w.Fail("tryeval-differs-from-kleene/"+stratum, "three-valued evaluation gives %s but TryEval returned %s\n%s\ndump: %s", valText(kv), valText(o.V), describeCase(tv.v.Src, tv.v.Cfg, b), oneLine(tv.v.Dump))
		}
		if len(un) > 0 {
			w.Inc("kleene_definite_with_unavailable")
			// non-trivial: plain left-to-right evaluation meets an unavailable variable first
			senv := &Env{Vars: availVals(b), Custom: stdCustom}
			if _, serr := senv.Eval(tree); serr == ErrUnbound {
				w.Inc("deciding_operand_after_unavailable")
				if tree.Depth() >= 3 {
					w.Inc("deciding_after_unavailable_depth3")
				}
				w.Nontrivial(tv.v.Src, tv.v.Cfg.Opts.String(), b.String())
			}
		}
	} else {
		w.Inc("kleene_dne")
		if !isDNE(o.V) {
			w.Inc("tryeval_more_informative_than_kleene")
		}
	}
	// TryEvalBool mirrors TryEval
	if _, isBool := o.V.(bool); (isBool || isDNE(o.V)) && !tv.events {
		ob := guard(func() (eval.Value, error) {
			return tv.v.E.TryEvalBool(&eval.Ctx{VariableFetcher: fetcherFor(b, nil)})
		})
		{
			w.Evals++
			switch {
			case ob.Panic != nil:
				w.Fail("tryevalbool-panic", "TryEvalBool panicked: %v\n%s", ob.Panic, describeCase(tv.v.Src, tv.v.Cfg, b))
			case isDNE(o.V):
				if ob.Err != eval.ErrDNE {
					w.Fail("tryevalbool-dne", "TryEval returned DNE but TryEvalBool returned %s instead of ErrDNE\n%s", ob, describeCase(tv.v.Src, tv.v.Cfg, b))
				}
				w.Inc("tryevalbool_errdne")
			default:
				if ob.Err != nil || ob.V != o.V {
					w.Fail("tryevalbool-value", "TryEval returned %s but TryEvalBool returned %s\n%s", valText(o.V), ob, describeCase(tv.v.Src, tv.v.Cfg, b))
				}
			}
		}
	}
}

func availVals(b Binding) map[string]interface{} {
	m := map[string]interface{}{}
	for k, v := range b.Vals {
		if b.Avail == nil || b.Avail[k] {
			m[k] = v
		}
	}
	return m
}

func judgeSoundness(w *W, r *rand.Rand, tv tryVariant, tree *Node, tys map[string]Ty, b Binding, un []string, o Outcome, wrongTypes bool, cap int, stratum string) {
	if len(un) == 0 {
		// everything available: TryEval and Eval agree
		oe := tryCall(w, tv, Binding{Vals: b.Vals}, CallEval)
		w.Inc("all_available_cases")
		if oe.Panic != nil || o.Panic != nil {
			return
		}
		if (oe.Err != nil) != (o.Err != nil) || (oe.Err == nil && !valEq(oe.V, o.V)) {
			w.Fail("tryeval-vs-eval-all-available/"+stratum, "all variables available: TryEval gives %s, Eval gives %s\n%s\ndump: %s", o, oe, describeCase(tv.v.Src, tv.v.Cfg, b), oneLine(tv.v.Dump))
		}
		return
	}
	if !definite(o) {
		if o.Err != nil {
			w.Inc("tryeval_errors")
		} else {
			w.Inc("tryeval_dne")
		}
		return
	}
	w.Inc("definite_with_unavailable")
	n := checkCompletions(w, r, tv, tree, tys, b, un, o.V, wrongTypes, cap)
	if n >= 2 {
		w.Nontrivial(tv.v.Src, tv.v.Cfg.Opts.String(), b.String())
	}
}

func tryRandomProgram(w *W, r *rand.Rand, stratum string, tree *Node, prop int) {
	tvs := tryVariants(w, r, tree, r.Intn(4) == 0)
	w.Inc("programs")
	w.Inc("programs_" + stratum)
	if len(tvs) == 0 {
		return
	}
	src := tree.Prefix()
	w.Sample(stratum, src)
	order, tys := tree.Vars()
	sort.Strings(order)
	nb := 2
	if w.Thorough() {
		nb = 3
	}
	capc := 128
	if w.Thorough() {
		capc = 1024
	}
	for _, vb := range genBindings(r, tree, nb, 0) {
		// availability splits
		var splits []uint32
		if len(order) <= 5 {
			for s := uint32(0); s < 1<<uint(len(order)); s++ {
				splits = append(splits, s)
			}
			if len(order) == 5 {
				w.Inc("programs_all_splits_of_5_vars")
			}
		} else {
			for k := 0; k < 12; k++ {
				splits = append(splits, r.Uint32()&(1<<uint(len(order))-1))
			}
			splits = append(splits, 1<<uint(len(order))-1)
		}
		type res struct {
			o  Outcome
			ok bool
		}
		results := map[uint32][]res{}
		for _, sp := range splits {
			avail := map[string]bool{}
			for i, v := range order {
				avail[v] = sp&(1<<uint(i)) != 0
			}
			avail["kshadow"], avail["ishadow"] = true, true
			b := Binding{Vals: vb.Vals, Avail: avail}
			un := unavailableOf(b, order)
			var kv interface{}
			var kerr error
			if prop == 5 {
				kv, kerr = refEnv(b).Kleene(tree)
			}
			rs := make([]res, len(tvs))
			for i, tv := range tvs {
				o := tryCall(w, tv, b, CallTryEval)
				rs[i] = res{o: o, ok: o.Panic == nil}
				if o.Panic != nil {
					continue
				}
				if prop == 5 {
					judgeKleene(w, tv, tree, b, un, kv, kerr, o, stratum)
				} else {
					// completions are the expensive part: sample the variants
					if len(un) == 0 || i%4 == int(sp)%4 || tv.events {
						judgeSoundness(w, r, tv, tree, tys, b, un, o, stratum == "wrong-type-completions", capc, stratum)
					}
				}
			}
			results[sp] = rs
		}
		if prop == 4 && len(order) <= 5 {
			// monotonicity along covering pairs
			for _, sp := range splits {
				for i := range order {
					if sp&(1<<uint(i)) != 0 {
						continue
					}
					bigger := sp | 1<<uint(i)
					ra, rb := results[sp], results[bigger]
					for vi := range tvs {
						if ra == nil || rb == nil || !ra[vi].ok || !rb[vi].ok {
							continue
						}
						a, c := ra[vi].o, rb[vi].o
						if definite(a) {
							w.Inc("covering_pairs_definite")
							if definite(c) && !valEq(a.V, c.V) {
								w.Fail("tryeval-not-monotone/"+stratum, "making %s available changes a definite answer from %s to %s\nsource: %s\nconfig: %s\nvalues: %s split=%05b", order[i], valText(a.V), valText(c.V), src, tvs[vi].v.Cfg, vb, sp)
							}
						}
					}
				}
			}
		}
	}
}

func c04Floors(m *Merged, tier string) []string {
	var unmet []string
	if m.C("definite_with_unavailable") < 1000 {
		unmet = append(unmet, fmt.Sprintf("only %d definite answers with unavailable variables", m.C("definite_with_unavailable")))
	}
	if m.C("programs_all_splits_of_5_vars") < 1 {
		unmet = append(unmet, "no program with 5 variables and all splits")
	}
	for _, c := range []string{"all_available_cases", "covering_pairs_definite", "completions_succeeding", "rco_loop_rounds", "unavailable_marked_by_dne_value", "calls_with_embedding_fetcher"} {
		if m.C(c) == 0 {
			unmet = append(unmet, c+" = 0")
		}
	}
	return unmet
}

func c05Floors(m *Merged, tier string) []string {
	var unmet []string
	if m.C("deciding_operand_after_unavailable") < 1000 {
		unmet = append(unmet, fmt.Sprintf("only %d cases with the deciding operand after an unavailable one", m.C("deciding_operand_after_unavailable")))
	}
	if m.C("deciding_after_unavailable_depth3") < 100 {
		unmet = append(unmet, "fewer than 100 deciding-after-unavailable cases at depth >= 3")
	}
	if m.C("tryevalbool_errdne") == 0 || m.C("kleene_dne") == 0 {
		unmet = append(unmet, "no undecided (DNE) case observed")
	}
	for _, c := range []string{"rco_loop_rounds", "rco_loops_with_nil_values", "unavailable_marked_by_dne_value"} {
		if m.C(c) == 0 {
			unmet = append(unmet, c+" = 0")
		}
	}
	return unmet
}

// tryWide: and/or with 40-127 distinct variable operands (operand stack slots beyond 64), optionally sitting on an
// already deep stack; only a few operands are unavailable, mostly late ones; a deciding operand anywhere or nowhere.
func tryWide(w *W, r *rand.Rand, prop int) {
	n := []int{40, 60, 63, 64, 65, 66, 70, 100, 126, 127}[r.Intn(10)]
	isOr := r.Intn(2) == 0
	name := []string{"and", "&&", "&"}[r.Intn(3)]
	if isOr {
		name = []string{"or", "||", "|"}[r.Intn(3)]
	}
	ch := make([]*Node, n)
	vals := map[string]interface{}{}
	var order []string
	for i := range ch {
		v := fmt.Sprintf("v%d", i)
		order = append(order, v)
		ch[i] = Var(v, TBool)
		vals[v] = !isOr // non-deciding
	}
	tree := Op(name, TBool, ch...)
	wideOp := false
	if r.Intn(3) == 0 {
		wideOp = true
		// ... or a wide arithmetic operator (every operand available) as the last operand of an and/or whose earlier
		// operand is unavailable: (or u (= (+ x1 .. xn) sum))
		n = []int{3, 64, 100, 126, 127}[r.Intn(5)]
		sum := int64(0)
		ch = make([]*Node, n)
		vals = map[string]interface{}{"u0": r.Intn(2) == 0}
		order = []string{"u0"}
		for i := range ch {
			v := fmt.Sprintf("x%d", i)
			order = append(order, v)
			ch[i] = Var(v, TInt)
			x := int64(r.Intn(5))
			vals[v] = x
			sum += x
		}
		want := sum
		if r.Intn(2) == 0 {
			want++
		}
		tree = Op(name, TBool, Var("u0", TBool), Op("=", TBool, Op("+", TInt, ch...), Lit(want)))
		w.Inc("wide_operator_after_unavailable_operand")
	}
	// optionally on top of a deep stack of pending operands
	pending := []int{0, 0, 10, 58, 62}[r.Intn(5)]
	if pending > 0 && n+pending < 200 {
		pch := make([]*Node, 0, pending+1)
		for i := 0; i < pending && i < 126; i++ {
			pch = append(pch, Lit(true))
		}
		pch = append(pch, tree)
		tree = Op("eq", TBool, pch...)
	}
	w.Inc("programs")
	w.Inc("programs_wide-andor")
	tvs := tryVariants(w, r, tree, false)
	if len(tvs) == 0 {
		return
	}
	w.Sample("wide-andor", firstN(tree.Prefix(), 200))
	_, tys := tree.Vars()
	for trial := 0; trial < 6; trial++ {
		b := Binding{Vals: map[string]interface{}{}, Avail: map[string]bool{}}
		for k2, v := range vals {
			b.Vals[k2] = v
			b.Avail[k2] = true
		}
		if wideOp {
			b.Avail["u0"] = false // the and/or's first operand is unknown, the wide operator's operands are all there
		} else {
			// 1-3 unavailable operands, biased to late positions
			nun := 1 + r.Intn(3)
			for i := 0; i < nun; i++ {
				p := n - 1 - r.Intn(minInt(n, 70))
				if r.Intn(4) == 0 {
					p = r.Intn(n)
				}
				b.Avail[order[p]] = false
			}
			// a deciding operand: none, early, late
			switch r.Intn(3) {
			case 1:
				b.Vals[order[r.Intn(minInt(n, 10))]] = isOr
			case 2:
				b.Vals[order[n-1-r.Intn(minInt(n, 10))]] = isOr
			}
		}
		un := unavailableOf(b, order)
		kv, kerr := refEnv(b).Kleene(tree)
		for i, tv := range tvs {
			o := tryCall(w, tv, b, CallTryEval)
			if o.Panic != nil {
				continue
			}
			if prop == 5 {
				judgeKleene(w, tv, tree, b, un, kv, kerr, o, "wide-andor")
			} else if i%4 == trial%4 {
				judgeSoundness(w, r, tv, tree, tys, b, un, o, false, 16, "wide-andor")
			}
		}
	}
}

// trySliceFetcher: the stock slice-backed fetcher built from a base config, while the program is compiled on a
// config derived from it with further variables registered afterwards. The fetcher is truthful here: every key in its
// range is bound, every later key is reported as not cached. TryEval must behave as with any truthful fetcher.
func trySliceFetcher(w *W, r *rand.Rand, prop int) {
	g := stratumByName([]string{"skeleton", "two-leaf", "deciding-late"}[r.Intn(2)]).Make(r)
	g.Custom, g.Consts, g.Fail = false, false, 0
	g.BoolVars = []string{"b0", "b1", "b2", "b3", "b4", "b5"}
	tree := g.Root(2 + r.Intn(3))
	if r.Intn(3) == 0 {
		tree = decidingLate(r)
	}
	order, tys := tree.Vars()
	for _, v := range order {
		if tys[v] != TBool && tys[v] != TInt {
			return
		}
	}
	if len(order) < 2 {
		return
	}
	w.Inc("programs")
	w.Inc("programs_slice-fetcher")
	r.Shuffle(len(order), func(i, j int) { order[i], order[j] = order[j], order[i] })
	m := 1 + r.Intn(len(order)-1) // the first m variables are registered in the base config and bound
	vals := map[string]interface{}{}
	avail := map[string]bool{}
	all := map[string]interface{}{}
	for i, v := range order {
		var val interface{} = r.Intn(2) == 0
		if tys[v] == TInt {
			val = int64(r.Intn(3) - 1)
		}
		all[v] = val
		avail[v] = i < m
		if i < m {
			vals[v] = val
		}
	}
	src := tree.Prefix()
	w.Sample("slice-fetcher", src)
	for _, o := range allOptSets() {
		base := eval.NewConfig()
		o.Apply(base)
		for i := 0; i < m; i++ {
			// keys 0..m-1 or 1..m
			base.VariableKeyMap[order[i]] = eval.VariableKey(i + int(o)%2)
		}
		ctx := eval.NewCtxFromVars(base, vals)
		if _, isSlice := ctx.VariableFetcher.(eval.SliceVarFetcher); !isSlice {
			continue
		}
		derived := eval.NewConfig(eval.ExtendConf(base))
		for i := m; i < len(order); i++ {
			eval.GetOrRegisterKey(derived, order[i])
		}
		// the premise, read off the slice itself (which keys later registrations get is the library's own choice): every
		// variable registered afterwards lies outside the slice, so a truthful fetcher reports it as not cached
		premise := true
		sl, _ := ctx.VariableFetcher.(eval.SliceVarFetcher)
		for i := m; i < len(order); i++ {
			if k := int(derived.VariableKeyMap[order[i]]); k >= 0 && k < len(sl) {
				premise = false // a slot of the slice (possibly an unused one): the fetcher cannot tell it from a bound variable
			}
		}
		if !premise {
			w.Inc("slice_fetcher_later_key_inside_range_skipped")
			continue
		}
		e, co := compileGuard(derived, src)
		if co.Err != nil || co.Panic != nil {
			w.Fail("compile-rejects-wellformed", "Compile failed: %v %v\nsource: %s", co.Err, co.Panic, src)
			return
		}
		out := guard(func() (eval.Value, error) { return e.TryEval(ctx) })
		w.Evals++
		w.Inc("slice_fetcher_tryevals")
		b := Binding{Vals: all, Avail: avail}
		desc := fmt.Sprintf("source: %s\noptions: %s\nslice-backed fetcher from a base config with %v (all bound); registered afterwards on the derived config (unavailable): %v\nvalues: %s", src, o, order[:m], order[m:], b)
		if out.Panic != nil {
			w.Fail("panic/"+normPanic(out.Panic)+"@"+panicSite(out.Stack), "TryEval panicked: %v\n%s", out.Panic, desc)
			continue
		}
		kv, kerr := refEnv(b).Kleene(tree)
		if kerr != nil {
			continue
		}
		if prop == 5 {
			switch {
			case out.Err != nil:
				w.Fail("tryeval-error-on-total-program/slice-fetcher", "TryEval failed with %q (three-valued value: %s)\n%s", out.Err, valText(kv), desc)
			case kv != refDNE && (isDNE(out.V) || !valEq(out.V, kv)):
				w.Fail("tryeval-differs-from-kleene/slice-fetcher", "three-valued evaluation gives %s but TryEval returned %s\n%s", valText(kv), valTextAny(out.V), desc)
			}
		} else if definite(out) {
			// soundness: Eval of the same program with everything bound (slice fetcher of the derived config)
			full := guard(func() (eval.Value, error) { return e.Eval(eval.NewCtxFromVars(derived, all)) })
			w.Evals++
			if full.Err == nil && full.Panic == nil && kv == refDNE {
				// the definite answer must hold for this completion (others are covered by the other strata)
				if !valEq(full.V, out.V) {
					w.Fail("tryeval-contradicted", "TryEval answered %s but Eval with every variable bound gives %s\n%s", valText(out.V), valText(full.V), desc)
				}
			}
		}
	}
}

// tryRCOLoop: the remote-call loop as the library's documentation describes it, on the library's own map-backed context:
// TryEval; while the answer is DNE fetch another variable, store it with Set, TryEval again on the same context. A fetched
// value may be nil (an absent field): the equality operators accept it. After every round the answer is judged against
// three-valued evaluation over what has been stored so far (C05) and against the first definite answer (C04).
func tryRCOLoop(w *W, r *rand.Rand, prop int) {
	strs := []string{"s0", "s1", "s2"}
	var gen func(d int) *Node
	leaf := func() *Node {
		switch r.Intn(5) {
		case 0:
			return Var(fmt.Sprintf("b%d", r.Intn(3)), TBool)
		case 1:
			return Op([]string{">", "<", "ge", "!="}[r.Intn(4)], TBool, Var(fmt.Sprintf("i%d", r.Intn(3)), TInt), Lit(int64(r.Intn(5)-2)))
		case 2:
			return Op([]string{"eq", "ne", "=", "!="}[r.Intn(4)], TBool, Var(strs[r.Intn(3)], TStr), Lit([]string{"ads", "root", ""}[r.Intn(3)]))
		case 3:
			return Op([]string{"eq", "ne"}[r.Intn(2)], TBool, Var(strs[r.Intn(3)], TStr), Var(strs[r.Intn(3)], TStr))
		default:
			return Op([]string{"eq", "ne"}[r.Intn(2)], TBool, Lit([]string{"ads", "x"}[r.Intn(2)]), Var(strs[r.Intn(3)], TStr))
		}
	}
	gen = func(d int) *Node {
		if d <= 0 || r.Intn(4) == 0 {
			return leaf()
		}
		switch r.Intn(6) {
		case 0:
			return Op("not", TBool, gen(d-1))
		case 1:
			return If(gen(d-1), gen(d-1), gen(d-1))
		default:
			n := 2 + r.Intn(3)
			ch := make([]*Node, n)
			for i := range ch {
				ch[i] = gen(d - 1)
			}
			return Op([]string{"and", "or", "&&", "||"}[r.Intn(4)], TBool, ch...)
		}
	}
	tree := gen(1 + r.Intn(3))
	if tree.Kind == KVar {
		tree = Op("and", TBool, tree, leaf()) // a bare variable is not a prefix program
	}
	names, _ := tree.Vars()
	if len(names) == 0 {
		return
	}
	vals := map[string]interface{}{}
	nilBound := false
	for _, n := range names {
		switch n[0] {
		case 'b':
			vals[n] = r.Intn(2) == 0
		case 'i':
			vals[n] = int64(r.Intn(5) - 2)
		default:
			if r.Intn(3) == 0 {
				vals[n] = nil
				nilBound = true
			} else {
				vals[n] = []string{"ads", "root", "x", ""}[r.Intn(4)]
			}
		}
	}
	cfg := cfgFor(tree, OptSet(r.Intn(16)), true) // undefined-variable mode: NewCtxFromVars gives a map-backed context
	if r.Intn(2) == 0 {
		// ... or registered variables whose keys lie outside the slice fetcher's range: map-backed as well
		cfg = cfgFor(tree, OptSet(r.Intn(16)), false)
		cfg.Keys = map[string]eval.VariableKey{}
		base := []int{300, 1000, -40}[r.Intn(3)]
		for i, n := range cfg.VarNames {
			cfg.Keys[n] = eval.VariableKey(base + i*3)
		}
		w.Inc("rco_loop_registered_keys_outside_slice_range")
	}
	v, ok := compileVariant(w, tree, tree.Prefix(), cfg, "rco-loop")
	if !ok {
		return
	}
	w.Inc("programs")
	w.Inc("programs_rco-loop")
	ctx := eval.NewCtxFromVars(v.CC, nil)
	order := r.Perm(len(names))
	avail := map[string]bool{}
	var first *Outcome
	firstRound := -1
	for round := 0; round <= len(names); round++ {
		o := guard(func() (eval.Value, error) { return v.E.TryEval(ctx) })
		w.Evals++
		w.Inc("rco_loop_rounds")
		av := map[string]bool{}
		var un []string
		for _, n := range names {
			av[n] = avail[n]
			if !avail[n] {
				un = append(un, n)
			}
		}
		b := Binding{Vals: vals, Avail: av}
		if o.Panic != nil {
			w.Fail("panic/"+normPanic(o.Panic)+"@"+panicSite(o.Stack), "TryEval panicked in round %d of the fetch loop: %v\n%s", round, o.Panic, describeCase(v.Src, v.Cfg, b))
			return
		}
		if prop == 5 {
			kv, kerr := (&Env{Vars: vals, Avail: av, Custom: stdCustom}).Kleene(tree)
			switch {
			case kerr != nil:
				w.Inc("skipped_not_total")
			case o.Err != nil:
				w.Fail("tryeval-error-on-total-program/rco-loop", "round %d of the fetch loop (stored so far: %v): TryEval failed with %q, three-valued value %s\n%s", round, availNames(av), o.Err, valText(kv), describeCase(v.Src, v.Cfg, b))
				return
			case kv != refDNE && (isDNE(o.V) || !valEq(o.V, kv)):
				w.Fail("tryeval-less-informative-than-kleene/rco-loop", "round %d of the fetch loop on one NewCtxFromVars context (stored so far with Set: %v): three-valued evaluation gives %s, TryEval returned %s\n%s\ndump: %s", round, availNames(av), valText(kv), o, describeCase(v.Src, v.Cfg, b), oneLine(v.Dump))
				return
			case kv != refDNE:
				w.Inc("kleene_definite")
				if len(un) > 0 {
					w.Inc("kleene_definite_with_unavailable")
					w.Nontrivial(v.Src, v.Cfg.Opts.String(), b.String())
				}
			}
		} else if definite(o) {
			if first == nil {
				oc := o
				first, firstRound = &oc, round
				if len(un) > 0 {
					w.Inc("definite_with_unavailable")
					w.Nontrivial(v.Src, v.Cfg.Opts.String(), b.String())
				}
			} else if !valEq(first.V, o.V) {
				w.Fail("tryeval-contradicted/rco-loop", "TryEval answered %s in round %d of the fetch loop and %s in round %d, after more variables had been stored (%v)\n%s", valText(first.V), firstRound, valText(o.V), round, availNames(av), describeCase(v.Src, v.Cfg, b))
				return
			}
		}
		if round < len(names) {
			n := names[order[round]]
			if err := ctx.Set(eval.UndefinedVarKey, n, vals[n]); err != nil {
				w.Fail("rco-loop/set-failed", "Set(%q) on a NewCtxFromVars context failed: %v", n, err)
				return
			}
			avail[n] = true
		}
	}
	if nilBound {
		w.Inc("rco_loops_with_nil_values")
	}
	if prop == 4 && first != nil {
		o := guard(func() (eval.Value, error) { return v.E.Eval(ctx) })
		w.Evals++
		if o.Err == nil && o.Panic == nil && !valEq(o.V, first.V) {
			w.Fail("tryeval-contradicted/rco-loop", "TryEval answered %s in round %d of the fetch loop, Eval on the completed context gives %s\n%s", valText(first.V), firstRound, valText(o.V), describeCase(v.Src, v.Cfg, Binding{Vals: vals}))
		}
	}
}

func availNames(av map[string]bool) []string {
	var l []string
	for n, ok := range av {
		if ok {
			l = append(l, n)
		}
	}
	sort.Strings(l)
	return l
}
