package main

// Runner: parent/worker process model, journals, watchdog, merging, evidence,
// known findings, replay files.

import (
	"bytes"
	"encoding/binary"
	"encoding/json"
	"fmt"
	"hash/fnv"
	"math/rand"
	"os"
	"os/exec"
	"path/filepath"
	"regexp"
	"runtime"
	"sort"
	"strings"
	"syscall"
	"time"
)

// verifRoot: the directory holding bin/, evidence/, replays/, known_findings.json
// (the parent of the directory the binary lives in; /verif when that cannot be determined).
var verifRoot = func() string {
	if r := os.Getenv("VERIF_ROOT"); r != "" {
		return r
	}
	if exe, err := os.Executable(); err == nil {
		if d := filepath.Dir(filepath.Dir(exe)); d != "/" && d != "." {
			if _, err := os.Stat(filepath.Join(d, "properties.jsonl")); err == nil {
				return d
			}
		}
	}
	return "/verif"
}()

// Prop describes one property check.
type Prop struct {
	ID          string
	Rule        string   // how cases are generated and what makes one non-trivial
	Assumptions []string // trusted base
	// main phase
	NumCases func(tier string) int
	Run      func(w *W, idx int)
	// optional race phase: executed by the -race binary
	RaceNumCases func(tier string) int
	RaceRun      func(w *W, idx int)
	RaceProcs    int
	// parent side: coverage floors; returns unmet floors
	Floors func(m *Merged, tier string) []string
	// per-case watchdog in seconds (0 = default)
	Watchdog int
	// extra evidence
	Extra func(m *Merged, tier string) map[string]interface{}
}

var props = map[string]*Prop{}

func register(p *Prop) { props[p.ID] = p }

type Violation struct {
	Sig    string `json:"signature"`
	Case   int    `json:"case_index"`
	Phase  string `json:"phase"`
	Detail string `json:"detail"`
}

// W is the per-worker collector handed to property drivers.
type W struct {
	Prop  *Prop
	Tier  string
	Seed  int64
	Phase string // "main" or "race"
	Case  int

	Evals        int64
	Counters     map[string]int64
	Distinct     map[uint64]struct{}
	DistinctCap  bool
	Samples      map[string][]string
	Viol         []Violation
	SigCount     map[string]int
	Inconclusive []string
	Verbose      bool
}

const distinctCapPerWorker = 1 << 20

func newW(p *Prop, tier string, seed int64, phase string) *W {
	return &W{Prop: p, Tier: tier, Seed: seed, Phase: phase,
		Counters: map[string]int64{}, Distinct: map[uint64]struct{}{}, Samples: map[string][]string{}, SigCount: map[string]int{}}
}

func (w *W) Thorough() bool { return w.Tier == "thorough" }

// Rand returns the PRNG of a case: a function of seed, property, phase and index only.
func (w *W) Rand(idx int) *rand.Rand {
	h := fnv.New64a()
	fmt.Fprintf(h, "%s/%s/%d/%d", w.Prop.ID, w.Phase, w.Seed, idx)
	return rand.New(rand.NewSource(int64(h.Sum64())))
}

func (w *W) Count(name string, n int64) { w.Counters[name] += n }
func (w *W) Inc(name string)            { w.Counters[name]++ }

// Max keeps the maximum seen for a gauge-like counter (merged with max: name must start with "max_").
func (w *W) Max(name string, v int64) {
	if v > w.Counters[name] {
		w.Counters[name] = v
	}
}

func hashStr(parts ...string) uint64 {
	h := fnv.New64a()
	for _, p := range parts {
		h.Write([]byte(p))
		h.Write([]byte{0})
	}
	return h.Sum64()
}

// Nontrivial registers a distinct non-trivial case (by canonical text).
func (w *W) Nontrivial(parts ...string) {
	if len(w.Distinct) >= distinctCapPerWorker {
		w.DistinctCap = true
		return
	}
	w.Distinct[hashStr(parts...)] = struct{}{}
}

func (w *W) Sample(stratum, s string) {
	if len(w.Samples[stratum]) < 2 {
		if len(s) > 600 {
			s = s[:600] + "…"
		}
		w.Samples[stratum] = append(w.Samples[stratum], s)
	}
}

// Fail records a violation. At most 3 full details are kept per signature.
func (w *W) Fail(sig string, format string, args ...interface{}) {
	w.SigCount[sig]++
	if w.SigCount[sig] > 3 {
		return
	}
	d := fmt.Sprintf(format, args...)
	if len(d) > 20000 {
		d = d[:20000] + "…(truncated)"
	}
	w.Viol = append(w.Viol, Violation{Sig: sig, Case: w.Case, Phase: w.Phase, Detail: d})
	if w.Verbose {
		fmt.Printf("violation [%s] case=%d\n%s\n", sig, w.Case, d)
	}
}

// ---------------------------------------------------------------------------
// worker side

type workerResult struct {
	Evals        int64               `json:"evals"`
	Counters     map[string]int64    `json:"counters"`
	Samples      map[string][]string `json:"samples"`
	Viol         []Violation         `json:"violations"`
	SigCount     map[string]int      `json:"sig_count"`
	Inconclusive []string            `json:"inconclusive"`
	DistinctCap  bool                `json:"distinct_capped"`
	HookLive     bool                `json:"hook_live"`
	Done         bool                `json:"done"`
}

func runCaseGuarded(w *W, run func(*W, int), idx int) {
	defer func() {
		if p := recover(); p != nil {
			buf := make([]byte, 1<<14)
			buf = buf[:runtime.Stack(buf, false)]
			// a panic that escaped the driver's own guards: attribute it
			site := panicSite(string(buf))
			if strings.Contains(string(buf), "github.com/onheap/eval.") {
				w.Fail("panic/"+normPanic(p)+"@"+site, "uncaught panic in case %d: %v\n%s", idx, p, buf)
			} else {
				w.Fail("harness-panic/"+normPanic(p), "harness panic in case %d: %v\n%s", idx, p, buf)
			}
		}
	}()
	w.Case = idx
	run(w, idx)
}

func workerMain(p *Prop, tier string, seed int64, phase string, k, n, from, only int, outdir string) {
	installHooks()
	calibrateRef()
	w := newW(p, tier, seed, phase)
	run, num := p.Run, p.NumCases
	if phase == "race" {
		run, num = p.RaceRun, p.RaceNumCases
	}
	total := num(tier)
	jf, err := os.OpenFile(filepath.Join(outdir, fmt.Sprintf("%s-w%d.journal", phase, k)), os.O_CREATE|os.O_RDWR, 0o644)
	if err != nil {
		fmt.Fprintln(os.Stderr, "journal:", err)
		os.Exit(2)
	}
	var jb [8]byte
	journal := func(i int64) {
		binary.LittleEndian.PutUint64(jb[:], uint64(i))
		jf.WriteAt(jb[:], 0)
	}
	if only >= 0 {
		journal(int64(only))
		runCaseGuarded(w, run, only)
	} else {
		start := k
		if from > start {
			start = from
		}
		for i := start; i < total; i += n {
			journal(int64(i))
			runCaseGuarded(w, run, i)
		}
	}
	journal(-1)
	res := workerResult{Evals: w.Evals, Counters: w.Counters, Samples: w.Samples, Viol: w.Viol, SigCount: w.SigCount,
		Inconclusive: w.Inconclusive, DistinctCap: w.DistinctCap, HookLive: hookLive != 0, Done: true}
	suffix := ""
	if only >= 0 {
		suffix = fmt.Sprintf("-only%d", only)
	} else if from > 0 {
		suffix = fmt.Sprintf("-from%d", from)
	}
	base := filepath.Join(outdir, fmt.Sprintf("%s-w%d%s", phase, k, suffix))
	hb := make([]byte, 0, 8*len(w.Distinct))
	for h := range w.Distinct {
		var b [8]byte
		binary.LittleEndian.PutUint64(b[:], h)
		hb = append(hb, b[:]...)
	}
	os.WriteFile(base+".hashes", hb, 0o644)
	jb2, _ := json.Marshal(res)
	os.WriteFile(base+".json.tmp", jb2, 0o644)
	os.Rename(base+".json.tmp", base+".json")
}

// ---------------------------------------------------------------------------
// parent side

type Merged struct {
	Evals        int64
	Counters     map[string]int64
	Distinct     map[uint64]struct{}
	DistinctCap  bool
	Samples      map[string][]string
	Viol         []Violation
	SigCount     map[string]int
	Inconclusive []string
	HookLive     bool
	RaceReports  int
	RaceClasses  map[string]string
}

func (m *Merged) C(name string) int64 { return m.Counters[name] }

func (m *Merged) merge(base string) bool {
	b, err := os.ReadFile(base + ".json")
	if err != nil {
		return false
	}
	var r workerResult
	if json.Unmarshal(b, &r) != nil || !r.Done {
		return false
	}
	m.Evals += r.Evals
	for k, v := range r.Counters {
		if strings.HasPrefix(k, "max_") {
			if v > m.Counters[k] {
				m.Counters[k] = v
			}
		} else {
			m.Counters[k] += v
		}
	}
	for k, v := range r.Samples {
		for _, s := range v {
			if len(m.Samples[k]) < 2 {
				m.Samples[k] = append(m.Samples[k], s)
			}
		}
	}
	m.Viol = append(m.Viol, r.Viol...)
	for k, v := range r.SigCount {
		m.SigCount[k] += v
	}
	m.Inconclusive = append(m.Inconclusive, r.Inconclusive...)
	m.DistinctCap = m.DistinctCap || r.DistinctCap
	m.HookLive = m.HookLive || r.HookLive
	if hb, err := os.ReadFile(base + ".hashes"); err == nil {
		for i := 0; i+8 <= len(hb); i += 8 {
			m.Distinct[binary.LittleEndian.Uint64(hb[i:])] = struct{}{}
		}
	}
	return true
}

type procState struct {
	k        int
	cmd      *exec.Cmd
	from     int
	lastIdx  int64
	lastMove time.Time
	restarts int
	done     bool
	stderr   string
	exited   chan error
}

func readJournal(path string) int64 {
	b, err := os.ReadFile(path)
	if err != nil || len(b) < 8 {
		return -2
	}
	return int64(binary.LittleEndian.Uint64(b))
}

func tailFile(path string, n int) string {
	b, _ := os.ReadFile(path)
	if len(b) > n {
		b = b[len(b)-n:]
	}
	return string(b)
}

func headFile(path string, n int) string {
	b, _ := os.ReadFile(path)
	if len(b) > n {
		b = b[:n]
	}
	return string(b)
}

var fatalRe = regexp.MustCompile(`(?m)^(fatal error: .*|panic: .*|runtime: goroutine stack exceeds.*|SIGSEGV.*)$`)

func fatalSig(stderr string) string {
	m := fatalRe.FindString(stderr)
	if m == "" {
		return "process died without diagnostic"
	}
	return normPanic(m)
}

type parentCfg struct {
	p        *Prop
	tier     string
	seed     int64
	phase    string
	bin      string
	nprocs   int
	outdir   string
	watchdog time.Duration
	env      []string

	confirmedDeaths int
}

func (pc *parentCfg) spawn(k, from, only int) (*exec.Cmd, string, error) {
	args := []string{"-prop", pc.p.ID, "-tier", pc.tier, "-seed", fmt.Sprint(pc.seed), "-phase", pc.phase,
		"-worker", fmt.Sprint(k), "-nworkers", fmt.Sprint(pc.nprocs), "-outdir", pc.outdir}
	tag := fmt.Sprintf("%s-w%d", pc.phase, k)
	if from > 0 {
		args = append(args, "-from", fmt.Sprint(from))
	}
	if only >= 0 {
		args = append(args, "-only", fmt.Sprint(only))
		tag += fmt.Sprintf("-only%d", only)
	}
	cmd := exec.Command(pc.bin, args...)
	errPath := filepath.Join(pc.outdir, tag+".stderr")
	ef, err := os.OpenFile(errPath, os.O_CREATE|os.O_WRONLY|os.O_APPEND, 0o644)
	if err != nil {
		return nil, "", err
	}
	cmd.Stderr = ef
	cmd.Stdout = ef
	cmd.Env = append(append(os.Environ(), pc.env...), "VCHECK_OUTDIR="+pc.outdir)
	if err := cmd.Start(); err != nil {
		return nil, "", err
	}
	ef.Close()
	return cmd, errPath, nil
}

// confirmAlone re-runs one case in a fresh child. Returns (reproduced, stderr tail).
func (pc *parentCfg) confirmAlone(k, idx int, m *Merged) (string, string) {
	cmd, errPath, err := pc.spawn(k, 0, idx)
	if err != nil {
		return "spawn-failed", err.Error()
	}
	done := make(chan error, 1)
	go func() { done <- cmd.Wait() }()
	select {
	case err := <-done:
		base := filepath.Join(pc.outdir, fmt.Sprintf("%s-w%d-only%d", pc.phase, k, idx))
		if (err == nil || pc.phase == "race") && m.merge(base) {
			return "ok", ""
		}
		return "died", tailFile(errPath, 6000)
	case <-time.After(pc.watchdog):
		cmd.Process.Signal(syscall.SIGQUIT)
		select {
		case <-done:
		case <-time.After(5 * time.Second):
			cmd.Process.Kill()
			<-done
		}
		return "hang", headFile(errPath, 6000)
	}
}

// runPhase runs all workers of a phase, handling crashes and hangs.
func (pc *parentCfg) runPhase(m *Merged) {
	procs := make([]*procState, pc.nprocs)
	start := func(ps *procState) {
		cmd, _, err := pc.spawn(ps.k, ps.from, -1)
		if err != nil {
			fmt.Fprintln(os.Stderr, "spawn:", err)
			os.Exit(2)
		}
		ps.cmd = cmd
		ps.lastIdx = -2
		ps.lastMove = time.Now()
		ps.exited = make(chan error, 1)
		go func(c *exec.Cmd, ch chan error) { ch <- c.Wait() }(cmd, ps.exited)
	}
	for k := range procs {
		procs[k] = &procState{k: k}
		start(procs[k])
	}
	remaining := pc.nprocs
	for remaining > 0 {
		time.Sleep(100 * time.Millisecond)
		if pc.confirmedDeaths >= 3 {
			// the violation is established (three cases that kill or hang the process, each confirmed alone):
			// stop the phase instead of paying the watchdog for every further case
			for _, ps := range procs {
				if !ps.done {
					ps.cmd.Process.Kill()
					<-ps.exited
					ps.done = true
				}
			}
			m.Inconclusive = append(m.Inconclusive, "phase stopped early after 3 confirmed process-fatal or hanging cases; the remaining cases were not run")
			return
		}
		for _, ps := range procs {
			if ps.done {
				continue
			}
			jpath := filepath.Join(pc.outdir, fmt.Sprintf("%s-w%d.journal", pc.phase, ps.k))
			var exitErr error
			exited := false
			select {
			case exitErr = <-ps.exited:
				exited = true
			default:
			}
			idx := readJournal(jpath)
			if idx != ps.lastIdx {
				ps.lastIdx = idx
				ps.lastMove = time.Now()
			}
			suffix := ""
			if ps.from > 0 {
				suffix = fmt.Sprintf("-from%d", ps.from)
			}
			base := filepath.Join(pc.outdir, fmt.Sprintf("%s-w%d%s", pc.phase, ps.k, suffix))
			if exited {
				// a race-detector build exits with status 66 when it reported races: the results are still complete
				if (exitErr == nil || pc.phase == "race") && m.merge(base) {
					ps.done = true
					remaining--
					continue
				}
				// died
				errPath := filepath.Join(pc.outdir, fmt.Sprintf("%s-w%d.stderr", pc.phase, ps.k))
				tail := tailFile(errPath, 8000)
				pc.handleDeath(ps, idx, "died", tail, m)
				if ps.restarts > 25 || idx < 0 {
					m.Inconclusive = append(m.Inconclusive, fmt.Sprintf("worker %d stopped after %d restarts (last case %d)", ps.k, ps.restarts, idx))
					ps.done = true
					remaining--
					continue
				}
				ps.restarts++
				ps.from = int(idx) + pc.nprocs
				os.Remove(errPath)
				start(ps)
				continue
			}
			if time.Since(ps.lastMove) > pc.watchdog && idx >= 0 {
				ps.cmd.Process.Signal(syscall.SIGQUIT)
				select {
				case <-ps.exited:
				case <-time.After(5 * time.Second):
					ps.cmd.Process.Kill()
					<-ps.exited
				}
				errPath := filepath.Join(pc.outdir, fmt.Sprintf("%s-w%d.stderr", pc.phase, ps.k))
				pc.handleDeath(ps, idx, "hang", headFile(errPath, 8000), m)
				if ps.restarts > 25 {
					ps.done = true
					remaining--
					continue
				}
				ps.restarts++
				ps.from = int(idx) + pc.nprocs
				os.Remove(errPath)
				start(ps)
			}
		}
	}
}

func (pc *parentCfg) handleDeath(ps *procState, idx int64, how, diag string, m *Merged) {
	if idx < 0 {
		m.Inconclusive = append(m.Inconclusive, fmt.Sprintf("worker %d %s outside any case: %s", ps.k, how, firstLines(diag, 3)))
		return
	}
	res, diag2 := pc.confirmAlone(ps.k, int(idx), m)
	if in := headFile(filepath.Join(pc.outdir, fmt.Sprintf("input-%d.txt", idx)), 2500); in != "" {
		diag2 = "last noted input of the case: " + in + "\n" + diag2
	}
	switch {
	case res == "ok":
		m.Inconclusive = append(m.Inconclusive, fmt.Sprintf("case %d: worker %s but the case ran clean alone (%s)", idx, how, firstLines(diag, 2)))
	case res == "hang":
		pc.confirmedDeaths++
		m.Viol = append(m.Viol, Violation{Sig: "hang/no progress within watchdog", Case: int(idx), Phase: pc.phase,
			Detail: fmt.Sprintf("case %d made no progress for %v, twice (in its shard and alone).\n%s", idx, pc.watchdog, diag2)})
		m.SigCount["hang/no progress within watchdog"]++
	default:
		pc.confirmedDeaths++
		sig := "fatal/" + fatalSig(diag2)
		m.Viol = append(m.Viol, Violation{Sig: sig, Case: int(idx), Phase: pc.phase,
			Detail: fmt.Sprintf("case %d kills the process (reproduced alone in a fresh process).\n%s", idx, diag2)})
		m.SigCount[sig]++
	}
}

func firstLines(s string, n int) string {
	l := strings.Split(strings.TrimSpace(s), "\n")
	if len(l) > n {
		l = l[:n]
	}
	return strings.Join(l, " | ")
}

// ---------------------------------------------------------------------------
// known findings

type KnownFinding struct {
	Property  string `json:"property"`
	Signature string `json:"signature"`
	What      string `json:"what"`
	Witness   string `json:"witness,omitempty"`
}

type KnownFile struct {
	Open  []KnownFinding `json:"open"`
	Fixed []string       `json:"fixed"`
}

func loadKnown() KnownFile {
	var k KnownFile
	b, err := os.ReadFile(filepath.Join(verifRoot, "known_findings.json"))
	if err == nil {
		json.Unmarshal(b, &k)
	}
	return k
}

// ---------------------------------------------------------------------------
// race logs

// racingFrame: the function performing the racing access of one stack of a race
// report = the first frame that is not in the runtime.
var anyFrameRe = regexp.MustCompile(`(?m)^\s+(\S+)\(\)\s*$`)

func racingFrame(stack string) string {
	for _, m := range anyFrameRe.FindAllStringSubmatch(stack, -1) {
		f := m[1]
		if strings.HasPrefix(f, "runtime.") || strings.HasPrefix(f, "internal/") || strings.HasPrefix(f, "sync/atomic.") {
			continue
		}
		return f
	}
	return "?"
}

func collectRaceLogs(dir string, m *Merged) {
	files, _ := filepath.Glob(filepath.Join(dir, "racelog.*"))
	for _, f := range files {
		b, _ := os.ReadFile(f)
		blocks := strings.Split(string(b), "WARNING: DATA RACE")
		for _, blk := range blocks[1:] {
			m.RaceReports++
			// the two access stacks come first; "Goroutine N created at" sections follow
			body := blk
			if i := strings.Index(body, "\nGoroutine "); i > 0 {
				body = body[:i]
			}
			parts := strings.SplitN(body, "Previous ", 2)
			a, b2 := racingFrame(parts[0]), "?"
			if len(parts) > 1 {
				b2 = racingFrame(parts[1])
			}
			inEval := func(f string) bool { return strings.HasPrefix(f, "github.com/onheap/eval.") }
			short := func(f string) string { return strings.TrimPrefix(f, "github.com/onheap/eval.") }
			var key string
			if !inEval(a) && !inEval(b2) {
				// neither racing access is in onheap/eval code: harness-internal
				key = "? <-> ?"
			} else {
				cl := []string{short(a), short(b2)}
				sort.Strings(cl)
				key = cl[0] + " <-> " + cl[1]
			}
			if _, ok := m.RaceClasses[key]; !ok {
				if len(blk) > 6000 {
					blk = blk[:6000]
				}
				m.RaceClasses[key] = "WARNING: DATA RACE" + blk
			}
		}
	}
}

// ---------------------------------------------------------------------------
// parent main

func parentMain(p *Prop, tier string, seed int64, nprocs int) int {
	t0 := time.Now()
	self, _ := os.Executable()
	outdir := filepath.Join(verifRoot, "run", fmt.Sprintf("%s-%s-%d-%d", p.ID, tier, seed, os.Getpid()))
	os.RemoveAll(outdir)
	if err := os.MkdirAll(outdir, 0o755); err != nil {
		fmt.Fprintln(os.Stderr, err)
		return 2
	}
	defer os.RemoveAll(outdir)

	m := &Merged{Counters: map[string]int64{}, Distinct: map[uint64]struct{}{}, Samples: map[string][]string{}, SigCount: map[string]int{}, RaceClasses: map[string]string{}}
	wd := 40 * time.Second
	if p.Watchdog > 0 {
		wd = time.Duration(p.Watchdog) * time.Second
	}
	if p.NumCases != nil {
		n := nprocs
		if c := p.NumCases(tier); c < n {
			n = c
		}
		if n > 0 {
			pc := &parentCfg{p: p, tier: tier, seed: seed, phase: "main", bin: self, nprocs: n, outdir: outdir, watchdog: wd}
			pc.runPhase(m)
		}
	}
	raceRan := false
	if p.RaceNumCases != nil {
		raceBin := filepath.Join(filepath.Dir(self), "vcheck-race")
		if _, err := os.Stat(raceBin); err != nil {
			m.Inconclusive = append(m.Inconclusive, "race binary missing: race phase not run")
		} else {
			n := p.RaceProcs
			if n <= 0 {
				n = 4
			}
			if c := p.RaceNumCases(tier); c < n {
				n = c
			}
			pc := &parentCfg{p: p, tier: tier, seed: seed, phase: "race", bin: raceBin, nprocs: n, outdir: outdir, watchdog: 4 * wd,
				env: []string{"GORACE=halt_on_error=0 log_path=" + filepath.Join(outdir, "racelog")}}
			pc.runPhase(m)
			collectRaceLogs(outdir, m)
			raceRan = true
		}
	}
	for key, rep := range m.RaceClasses {
		if key == "? <-> ?" {
			// neither stack involves onheap/eval: a race inside the harness itself, not a verdict about the repository
			m.Inconclusive = append(m.Inconclusive, "race report without any onheap/eval frame (harness-internal): "+firstLines(rep, 4))
			continue
		}
		m.Viol = append(m.Viol, Violation{Sig: "race/" + key, Case: -1, Phase: "race", Detail: rep})
		m.SigCount["race/"+key]++
	}

	// classify violations
	known := loadKnown()
	knownHit := map[string]int{}
	var realViol []Violation
	for _, v := range m.Viol {
		matched := false
		for _, k := range known.Open {
			if k.Property == p.ID && k.Signature == v.Sig {
				knownHit[k.Signature]++
				matched = true
			}
		}
		if !matched {
			realViol = append(realViol, v)
		}
	}
	for _, k := range known.Open {
		if k.Property == p.ID && knownHit[k.Signature] > 0 {
			fmt.Printf("KNOWN-FINDING: property=%s %s (signature %s, reproduced %d time(s) in this run)\n", p.ID, k.What, k.Signature, m.SigCount[k.Signature])
		}
	}

	// replay files: one per violation kept (<=3 per signature)
	exit := 0
	printed := map[string]bool{}
	if len(realViol) > 0 {
		rdir := filepath.Join(verifRoot, "replays", p.ID)
		os.MkdirAll(rdir, 0o755)
		for _, v := range realViol {
			name := fmt.Sprintf("%s-%016x.json", sanitize(v.Sig), hashStr(v.Sig, v.Detail))
			path := filepath.Join(rdir, name)
			rb, _ := json.MarshalIndent(map[string]interface{}{
				"property": p.ID, "tier": tier, "seed": seed, "phase": v.Phase, "case_index": v.Case,
				"signature": v.Sig, "detail": v.Detail,
				"replay": fmt.Sprintf("./check.sh %s replay %s", p.ID, path),
			}, "", " ")
			os.WriteFile(path, rb, 0o644)
			if !printed[v.Sig] {
				printed[v.Sig] = true
				fmt.Printf("VIOLATION property=%s replay=%s\n", p.ID, path)
				fmt.Printf("  signature: %s (%d occurrence(s))\n  %s\n", v.Sig, m.SigCount[v.Sig], indent(firstN(v.Detail, 1500), "  "))
			}
		}
		exit = 1
	}
	for _, s := range m.Inconclusive {
		fmt.Printf("INCONCLUSIVE property=%s reason=%s\n", p.ID, s)
	}

	var unmet []string
	if p.Floors != nil {
		unmet = p.Floors(m, tier)
	}
	if p.RaceNumCases != nil && !raceRan {
		unmet = append(unmet, "race phase did not run")
	}
	for _, u := range unmet {
		fmt.Printf("INCONCLUSIVE property=%s reason=coverage floor not met: %s\n", p.ID, u)
	}
	if exit == 0 && len(unmet) > 0 {
		exit = 3
	}

	writeEvidence(p, tier, seed, m, len(realViol), knownHit, unmet, time.Since(t0).Seconds())
	fmt.Printf("%s %s seed=%d: evaluations=%d distinct_nontrivial=%d violations=%d known_findings=%d inconclusive=%d hook_live=%v wall=%.1fs exit=%d\n",
		p.ID, tier, seed, m.Evals, len(m.Distinct), len(printed), len(knownHit), len(m.Inconclusive)+len(unmet), m.HookLive, time.Since(t0).Seconds(), exit)
	return exit
}

func sanitize(s string) string {
	var sb strings.Builder
	for _, c := range s {
		switch {
		case c >= 'a' && c <= 'z', c >= 'A' && c <= 'Z', c >= '0' && c <= '9', c == '-', c == '_':
			sb.WriteRune(c)
		default:
			sb.WriteByte('_')
		}
	}
	r := sb.String()
	if len(r) > 60 {
		r = r[:60]
	}
	return r
}

func firstN(s string, n int) string {
	if len(s) > n {
		return s[:n] + "…"
	}
	return s
}

func indent(s, pre string) string { return strings.ReplaceAll(s, "\n", "\n"+pre) }

func writeEvidence(p *Prop, tier string, seed int64, m *Merged, nviol int, knownHit map[string]int, unmet []string, wall float64) {
	samples := []interface{}{}
	var strata []string
	for k := range m.Samples {
		strata = append(strata, k)
	}
	sort.Strings(strata)
	for _, k := range strata {
		for _, s := range m.Samples[k] {
			samples = append(samples, map[string]string{"stratum": k, "case": s})
		}
	}
	cov := map[string]interface{}{
		"evaluations":         m.Evals,
		"distinct_nontrivial": len(m.Distinct),
		"rule":                p.Rule,
		"samples":             samples,
		"exhaustive":          false,
		"counters":            m.Counters,
		"hook_live":           m.HookLive,
		"hooks_compiled":      hooksCompiled,
		"distinct_capped":     m.DistinctCap,
		"inconclusive":        append(append([]string{}, m.Inconclusive...), unmet...),
		"known_findings_hit":  knownHit,
	}
	if p.RaceNumCases != nil {
		cov["race_reports"] = m.RaceReports
		cov["race_report_classes"] = len(m.RaceClasses)
	}
	if p.Extra != nil {
		for k, v := range p.Extra(m, tier) {
			cov[k] = v
		}
	}
	ev := map[string]interface{}{
		"property_id": p.ID, "tier": tier, "seed": seed, "level": "exploration",
		"coverage": cov, "assumptions": p.Assumptions, "wall_s": wall, "violations": nviol,
	}
	var buf bytes.Buffer
	enc := json.NewEncoder(&buf)
	enc.SetEscapeHTML(false)
	enc.SetIndent("", " ")
	enc.Encode(ev)
	os.MkdirAll(filepath.Join(verifRoot, "evidence"), 0o755)
	os.WriteFile(filepath.Join(verifRoot, "evidence", p.ID+".json"), buf.Bytes(), 0o644)
}

// replayMain re-executes the case recorded in a replay file against the current tree.
func replayMain(path string) int {
	b, err := os.ReadFile(path)
	if err != nil {
		fmt.Fprintln(os.Stderr, err)
		return 2
	}
	var r struct {
		Property string `json:"property"`
		Tier     string `json:"tier"`
		Seed     int64  `json:"seed"`
		Phase    string `json:"phase"`
		Case     int    `json:"case_index"`
		Sig      string `json:"signature"`
	}
	if err := json.Unmarshal(b, &r); err != nil {
		fmt.Fprintln(os.Stderr, err)
		return 2
	}
	p := props[r.Property]
	if p == nil || r.Case < 0 {
		fmt.Println("replay: this record (a race report or an unknown property) cannot be re-executed as a single case; re-run the check")
		return 2
	}
	installHooks()
	calibrateRef()
	w := newW(p, r.Tier, r.Seed, r.Phase)
	w.Verbose = true
	run := p.Run
	if r.Phase == "race" {
		run = p.RaceRun
	}
	runCaseGuarded(w, run, r.Case)
	if len(w.Viol) > 0 {
		fmt.Printf("VIOLATION property=%s replay=%s\n", p.ID, path)
		return 1
	}
	fmt.Printf("replay of case %d (%s): no violation on the current tree\n", r.Case, r.Sig)
	return 0
}
