package main

// Glue between harness cases and the engine API.

import (
	"fmt"
	"math"
	"sort"
	"strings"
	"sync/atomic"

	"github.com/onheap/eval"
)

type OptSet uint8 // bit0 ConstantFolding, bit1 ReduceNesting, bit2 FastEvaluation, bit3 Reordering

const (
	OptCF OptSet = 1 << iota
	OptRN
	OptFE
	OptRO
	OptAll  OptSet = 15
	OptNone OptSet = 0
)

var optNames = []eval.CompileOption{eval.ConstantFolding, eval.ReduceNesting, eval.FastEvaluation, eval.Reordering}

func (o OptSet) String() string {
	var s []string
	for i, n := range []string{"cf", "rn", "fe", "ro"} {
		if o&(1<<uint(i)) != 0 {
			s = append(s, n)
		}
	}
	if len(s) == 0 {
		return "none"
	}
	return strings.Join(s, "+")
}

func (o OptSet) Apply(cc *eval.Config) {
	for i, n := range optNames {
		cc.CompileOptions[n] = o&(1<<uint(i)) != 0
	}
}

// Directive renders the option subset as leading ";;;;" comment lines. Directives apply in source order
// (a later entry overrides an earlier one; "optimize" switches all four). Besides the plain forms the text may
// contain junk entries that are overridden later, the switch-all in the middle of a line, and entries relying on
// a later switch-all overriding an earlier specific option.
func (o OptSet) Directive(r interface{ Intn(int) int }) string {
	name := func(i int) string { return string(optNames[i]) }
	var entries []string
	switch r.Intn(5) {
	case 0:
		// plain: the four options explicitly, in order
		for i := range optNames {
			entries = append(entries, fmt.Sprintf("%s:%v", name(i), o&(1<<uint(i)) != 0))
		}
	case 1:
		if o == OptAll || o == OptNone {
			entries = []string{fmt.Sprintf("optimize:%v", o == OptAll)}
			break
		}
		fallthrough
	default:
		// junk specifics, then a switch-all, then the options that differ from it (in random order)
		for k := r.Intn(4); k > 0; k-- {
			entries = append(entries, fmt.Sprintf("%s:%v", name(r.Intn(4)), r.Intn(2) == 0))
		}
		b := r.Intn(2) == 0
		entries = append(entries, fmt.Sprintf("optimize:%v", b))
		perm := []int{0, 1, 2, 3}
		for i := 3; i > 0; i-- {
			k := r.Intn(i + 1)
			perm[i], perm[k] = perm[k], perm[i]
		}
		for _, i := range perm {
			want := o&(1<<uint(i)) != 0
			if want != b {
				if r.Intn(3) == 0 {
					// set it wrongly first, the later entry wins
					entries = append(entries, fmt.Sprintf("%s:%v", name(i), !want))
				}
				entries = append(entries, fmt.Sprintf("%s:%v", name(i), want))
			} else if r.Intn(4) == 0 {
				entries = append(entries, fmt.Sprintf("%s:%v", name(i), want))
			}
		}
	}
	// split the entries over lines
	var sb strings.Builder
	sb.WriteString(";;;; ")
	for i, e := range entries {
		if i > 0 {
			switch r.Intn(3) {
			case 0:
				sb.WriteString("\n;;;;")
				if r.Intn(2) == 0 {
					sb.WriteString(" ")
				}
			case 1:
				sb.WriteString(" , ")
			default:
				sb.WriteString(",")
			}
		}
		sb.WriteString(e)
	}
	sb.WriteString("\n")
	return sb.String()
}

// CaseCfg is everything that goes into a Config for one compilation.
type CaseCfg struct {
	Opts      OptSet
	Events    int // 0 none, 1 ReportEvent, 2 Debug
	Undefined bool
	Infix     bool
	Consts    map[string]interface{}
	VarNames  []string // registered (explicit keys 1..n in this order unless Keys given)
	Keys      map[string]eval.VariableKey
	Custom    map[string]*CustomOp
	Stateless []string
	Costs     map[string]float64
	// OptionFuncs: when set, the optimization subset is selected through these option functions instead of Opts
	OptionFuncs []eval.Option
	// RegisterAlways: register VarNames even in undefined-variable mode (mixed registered / undefined names)
	RegisterAlways bool
	// Directive: when set, the source carries ";;;;" directives selecting this subset (Opts is only the base config)
	Directive *OptSet
	// StrayOptimize: the general "optimize" key written directly into CompileOptions (1: true, 2: false) next to the four
	// individual switches. Only Optimizations(...) and the directive interpret that name; in the map it selects nothing.
	StrayOptimize int
	// Pad: that many further variables, constants and operators are registered (names no expression uses): a Config
	// the size of a real rule engine's. 0 lets buildConfig decide (one configuration in sixteen gets 70 of each).
	Pad int
}

// EffectiveOpts: the optimization subset in force for the compilation.
func (c CaseCfg) EffectiveOpts() OptSet {
	if c.Directive != nil {
		return *c.Directive
	}
	return c.Opts
}

func (c CaseCfg) String() string {
	ev := []string{"", " report_event", " debug"}[c.Events]
	s := fmt.Sprintf("opts=%s%s", c.Opts, ev)
	if c.Undefined {
		s += " undefined-vars"
	}
	if c.Infix {
		s += " infix"
	}
	if len(c.Costs) > 0 {
		s += fmt.Sprintf(" costs=%v", c.Costs)
	}
	if len(c.Stateless) > 0 {
		s += fmt.Sprintf(" stateless=%v", c.Stateless)
	}
	if c.StrayOptimize != 0 {
		s += fmt.Sprintf(" CompileOptions[optimize]=%v", c.StrayOptimize == 1)
	}
	return s
}

// shadowedBuiltinCalls counts calls of OperatorMap entries stored under built-in names (must stay 0)
var shadowedBuiltinCalls int64

// registerOperatorFailures counts RegisterOperator calls that rejected a fresh name (reported by C10)
var registerOperatorFailures int

// viaOptionFuncs: build the optimization subset through the Optimizations(...) option functions instead of the map
func (o OptSet) optionFuncs(r interface{ Intn(int) int }) []eval.Option {
	fs := o.optionFuncsPlain(r)
	// a base Config that says nothing about optimizations, merged in before or after the choice: it decides nothing
	switch r.Intn(3) {
	case 0:
		fs = append(fs, eval.ExtendConf(eval.NewConfig()))
	case 1:
		fs = append([]eval.Option{eval.ExtendConf(eval.NewConfig(eval.EnableUndefinedVariable))}, fs...)
	}
	return fs
}

func (o OptSet) optionFuncsPlain(r interface{ Intn(int) int }) []eval.Option {
	var on, off []eval.CompileOption
	for i, n := range optNames {
		if o&(1<<uint(i)) != 0 {
			on = append(on, n)
		} else {
			off = append(off, n)
		}
	}
	switch {
	case o == OptAll:
		return []eval.Option{[]eval.Option{eval.Optimizations(true), eval.Optimizations(true, eval.Optimize)}[r.Intn(2)]}
	case o == OptNone:
		return []eval.Option{[]eval.Option{eval.Optimizations(false), eval.Optimizations(false, eval.Optimize)}[r.Intn(2)]}
	case r.Intn(2) == 0:
		return []eval.Option{eval.Optimizations(false), eval.Optimizations(true, on...)}
	}
	return []eval.Option{eval.Optimizations(true, eval.Optimize), eval.Optimizations(false, off...)}
}

func buildConfig(c CaseCfg, cfgRec *Recorder) *eval.Config {
	cc := eval.NewConfig()
	if c.OptionFuncs != nil {
		cc = eval.NewConfig(c.OptionFuncs...)
	} else {
		c.Opts.Apply(cc)
	}
	if c.StrayOptimize != 0 {
		cc.CompileOptions[eval.Optimize] = c.StrayOptimize == 1
	}
	switch c.Events {
	case 1:
		cc.CompileOptions[eval.ReportEvent] = true
	case 2:
		cc.CompileOptions[eval.Debug] = true
	}
	if c.Undefined {
		cc.CompileOptions[eval.AllowUndefinedVariable] = true
	}
	if c.Infix {
		cc.CompileOptions[eval.InfixNotation] = true
	}
	for k, v := range c.Consts {
		cc.ConstantMap[k] = copyVal(v)
	}
	// list constants named X and X_HEAD share one backing array when X_HEAD is a prefix of X (a caller's ranking and its head)
	for k, v := range cc.ConstantMap {
		if !strings.HasSuffix(k, "_HEAD") {
			continue
		}
		switch head := v.(type) {
		case []int64:
			if all, ok := cc.ConstantMap[strings.TrimSuffix(k, "_HEAD")].([]int64); ok && len(head) <= len(all) && valEq(head, all[:len(head)]) {
				cc.ConstantMap[k] = all[:len(head)]
			}
		case []string:
			if all, ok := cc.ConstantMap[strings.TrimSuffix(k, "_HEAD")].([]string); ok && len(head) <= len(all) && valEq(head, all[:len(head)]) {
				cc.ConstantMap[k] = all[:len(head)]
			}
		}
	}
	if c.Keys != nil {
		for k, v := range c.Keys {
			cc.VariableKeyMap[k] = v
		}
	} else if !c.Undefined || c.RegisterAlways {
		// consecutive keys; a third of the configurations start at key 0 (a legal key: the first value of an iota block)
		base := 1
		if (hashStr(strings.Join(c.VarNames, ","))+uint64(c.Opts))%3 == 0 {
			base = 0
		}
		for i, n := range c.VarNames {
			cc.VariableKeyMap[n] = eval.VariableKey(i + base)
		}
	}
	pad := c.Pad
	if pad == 0 && c.Keys == nil && (hashStr(strings.Join(c.VarNames, ","))+uint64(c.Opts))%16 == 5 {
		pad = 70
	}
	if pad > 0 {
		next := eval.VariableKey(0)
		for _, k := range cc.VariableKeyMap {
			if k >= next {
				next = k + 1
			}
		}
		for i := 0; i < pad; i++ {
			cc.VariableKeyMap[fmt.Sprintf("pad.var.%d", i)] = next + eval.VariableKey(i)
			cc.ConstantMap[fmt.Sprintf("PAD_CONST_%d", i)] = int64(i)
			cc.OperatorMap[fmt.Sprintf("pad_op_%d", i)] = padOperator
			if len(c.Costs) > 0 {
				cc.CostsMap[fmt.Sprintf("pad.var.%d", i)] = float64(i % 7)
			}
		}
	}
	names := make([]string, 0, len(c.Custom))
	for n := range c.Custom {
		names = append(names, n)
	}
	sort.Strings(names)
	for i, n := range names {
		if i%2 == 0 {
			// the documented registration entry point (must accept a fresh, non-built-in name)
			if err := eval.RegisterOperator(cc, n, wrapCustom(c.Custom[n], cfgRec)); err != nil {
				registerOperatorFailures++
				cc.OperatorMap[n] = wrapCustom(c.Custom[n], cfgRec)
			}
			continue
		}
		cc.OperatorMap[n] = wrapCustom(c.Custom[n], cfgRec)
	}
	// Entries in OperatorMap under built-in names (possible through a Config literal, RegVarAndOp or a plain map write;
	// RegisterOperator refuses them): the built-in operator of that name is what an expression means, in every position
	// and under every option, so these functions must never run.
	if (hashStr(strings.Join(c.VarNames, ","))+uint64(c.Opts))%2 == 0 {
		for _, n := range []string{"mod", "add", "eq", "ne", "and", "or", "not", "in", "%", "+", "=", "!", "between", "version"} {
			name := n
			cc.OperatorMap[name] = func(*eval.Ctx, []eval.Value) (eval.Value, error) {
				atomic.AddInt64(&shadowedBuiltinCalls, 1)
				return nil, fmt.Errorf("harness: the OperatorMap entry under the built-in name %q was called", name)
			}
		}
		// ... and ConstantMap entries under the names of the boolean literals: true and false are the built-in booleans
		cc.ConstantMap["true"] = int64(1)
		cc.ConstantMap["false"] = "no"
	}
	cc.StatelessOperators = append(cc.StatelessOperators, c.Stateless...)
	for k, v := range c.Costs {
		cc.CostsMap[k] = v
	}
	return cc
}

func padOperator(*eval.Ctx, []eval.Value) (eval.Value, error) {
	return nil, fmt.Errorf("harness: a padding operator was called")
}

func compileGuard(cc *eval.Config, src string) (*eval.Expr, Outcome) {
	var e *eval.Expr
	o := guard(func() (eval.Value, error) {
		var err error
		e, err = eval.Compile(cc, src)
		return nil, err
	})
	return e, o
}

type CallKind int

const (
	CallEval CallKind = iota
	CallTryEval
)

// callExpr evaluates e once with a recording fetcher. If the program was
// compiled in event mode the channel is drained by a snapshotting consumer.
func callExpr(e *eval.Expr, kind CallKind, f *RecFetcher, tr *Tracer, eventMode bool) (Outcome, []EvRec) {
	ctx := &eval.Ctx{VariableFetcher: f}
	if tr != nil {
		tr.Begin()
		ctx.Ctx = ctxWithTracer(tr)
	}
	call := func() (eval.Value, error) {
		if kind == CallTryEval {
			return e.TryEval(ctx)
		}
		return e.Eval(ctx)
	}
	if !eventMode {
		return guard(call), nil
	}
	var o Outcome
	evs := collectEvents(e, 0, func() { o = guard(call) })
	return o, evs
}

func dumpGuard(e *eval.Expr) (string, Outcome) {
	var s string
	o := guard(func() (eval.Value, error) { s = eval.Dump(e); return nil, nil })
	return s, o
}

func isDNE(v interface{}) bool { return v == eval.DNE }

// toEngineVals normalises binding values the way NewCtxFromVars would.
func engineVal(v interface{}) interface{} { return eval.UnifyType(v) }

var extremeInts = []int64{math.MinInt64, math.MinInt64 + 1, -1, 0, 1, math.MaxInt64 - 1, math.MaxInt64}

// tableGuard: DumpTable text of a variant (real nodes only), "" if it panics.
func tableGuard(v *Variant) string {
	var s string
	guard(func() (eval.Value, error) { s = eval.DumpTable(v.E, true); return nil, nil })
	return s
}

// calibrateRef reads the radix of the version encoding off the engine (see refVersionBase in ref.go).
func calibrateRef() {
	defer func() { recover() }()
	enc := func(src string) (int64, bool) {
		e, err := eval.Compile(eval.NewConfig(), src)
		if err != nil || e == nil {
			return 0, false
		}
		v, err := e.Eval(eval.NewCtxFromVars(eval.NewConfig(), nil))
		i, ok := v.(int64)
		return i, ok && err == nil
	}
	b, ok := enc(`(+ 0 (t_version "1.0" 2))`)
	if !ok || b < 10000 || b > 30000 {
		return
	}
	for _, t := range []struct {
		src  string
		want int64
	}{
		{`(+ 0 (t_version "1.0.0" 3))`, b * b},
		{`(+ 0 (t_version "1.0.0.0" 4))`, b * b * b},
		{`(+ 0 (t_version "2.3.4"))`, 2*b*b + 3*b + 4},
		{`(+ 0 (t_version "0.9999" 2))`, 9999},
	} {
		if v, ok := enc(t.src); !ok || v != t.want {
			return
		}
	}
	refVersionBase = b
}
