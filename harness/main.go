package main

import (
	"flag"
	"fmt"
	"os"
	"runtime"
	"strconv"
)

func main() {
	prop := flag.String("prop", "", "property id (C01..C20)")
	tier := flag.String("tier", "quick", "quick|thorough")
	seed := flag.Int64("seed", -1, "seed (default: $VERIF_SEED or 1)")
	phase := flag.String("phase", "", "worker: main|race")
	worker := flag.Int("worker", -1, "worker index (internal)")
	nworkers := flag.Int("nworkers", 0, "number of workers")
	from := flag.Int("from", 0, "worker: first case index (internal)")
	only := flag.Int("only", -1, "worker: run only this case (internal)")
	outdir := flag.String("outdir", "", "worker: output directory (internal)")
	replay := flag.String("replay", "", "replay file")
	list := flag.Bool("list", false, "list properties")
	deepnest := flag.String("deepnest", "", "internal: <maker>:<depth> compile one deeply nested source in this process")
	flag.Parse()

	if *deepnest != "" {
		deepNestChild(*deepnest)
		return
	}

	if *list {
		for id := range props {
			fmt.Println(id)
		}
		return
	}
	if *replay != "" {
		os.Exit(replayMain(*replay))
	}
	if *seed < 0 {
		*seed = 1
		if s := os.Getenv("VERIF_SEED"); s != "" {
			if v, err := strconv.ParseInt(s, 10, 64); err == nil {
				*seed = v
			}
		}
	}
	p := props[*prop]
	if p == nil {
		fmt.Fprintf(os.Stderr, "unknown property %q\n", *prop)
		os.Exit(2)
	}
	if *tier != "quick" && *tier != "thorough" {
		fmt.Fprintf(os.Stderr, "unknown tier %q\n", *tier)
		os.Exit(2)
	}
	if *worker >= 0 {
		workerMain(p, *tier, *seed, *phase, *worker, *nworkers, *from, *only, *outdir)
		return
	}
	n := *nworkers
	if n <= 0 {
		n = runtime.NumCPU()
		if n > 16 {
			n = 16
		}
	}
	os.Exit(parentMain(p, *tier, *seed, n))
}
