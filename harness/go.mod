module verifharness

go 1.21

require github.com/onheap/eval v0.0.0

replace github.com/onheap/eval => /repo
