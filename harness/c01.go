package main

// C01 — Eval computes the documented left-to-right short-circuit semantics.

import (
	"fmt"

	"github.com/onheap/eval"
)

func init() {
	register(&Prop{
		ID: "C01",
		Rule: "Programs: (a) every boolean-core tree with <=2 (thorough <=3, sampled labellings) internal nodes x every leaf labelling x every true/false assignment; " +
			"(b) typed random programs from strata skeleton/mixed/failing/wide-deep/two-leaf plus deep right-nested chains, 8-12 bindings each incl. unbound variables. " +
			"All compiled with every optimization off and evaluated through Expr.Eval, EvalBool, NewCtxFromVars and eval.Eval; the result/error is compared with an independent tree interpreter " +
			"(sentinel identity for fetcher/custom-operator errors, isolated re-run of the failing built-in for built-in errors). " +
			"A case (program+binding) is non-trivial when the program has >=3 operator/if nodes and the reference evaluation short-circuited or raised an error; distinct = distinct (source, binding) text.",
		Assumptions: []string{
			"reference interpreter ref.go (naive recursive evaluator written from README/property text) is the trusted base",
			"harness fetchers and registered operators are pure and truthful",
			"operands of and/or are boolean-typed or failing by construction of the generator (the property's own quantifier)",
		},
		NumCases: func(tier string) int {
			if tier == "thorough" {
				return c01EnumCases("thorough") + 5000000
			}
			return c01EnumCases("quick") + 100000
		},
		Run:    c01Run,
		Floors: c01Floors,
		Extra: func(m *Merged, tier string) map[string]interface{} {
			k := 2
			if tier == "thorough" {
				k = 3
			}
			sub := []string{fmt.Sprintf("%s", "every boolean-core tree with <=2 internal nodes (not, and/or of arity 2-3, if) x every labelling of its leaf slots over {true, false, variable, (> var 0), (> 1 0)} x every true/false assignment")}
			if k == 3 {
				sub = append(sub, "trees with 3 internal nodes: every shape, labellings sampled as stated in 'rule'")
			}
			return map[string]interface{}{"exhaustive_subspaces": sub, "enumerated_shapes": len(shapesUpTo(k))}
		},
	})
}

const enumChunks = 4

func enumShapesFor(tier string) []*Shape {
	if tier == "thorough" {
		return shapesUpTo(3)
	}
	return shapesUpTo(2)
}

func c01EnumCases(tier string) int { return len(enumShapesFor(tier)) * enumChunks }

// labellingsFor: the labelling indices of a shape that the tier enumerates, restricted to a chunk.
func labellingsFor(w *W, s *Shape, internal int, chunk int, f func(labels []int)) {
	slots := s.slots()
	total := ipow(numLabels, slots)
	if internal <= 2 {
		for l := chunk; l < total; l += enumChunks {
			f(decodeLabels(l, slots, numLabels))
		}
		return
	}
	if w.Prop.ID == "C04" || w.Prop.ID == "C05" {
		// TryEval drivers run 16 variants x 3^variables assignments (x completions) per labelling:
		// for 3 internal nodes they take the all-variable, the all-comparison and two PRNG-chosen labellings
		if chunk != 0 {
			return
		}
		for _, l := range []int{lbVar, lbCmpVar} {
			lab := make([]int, slots)
			for i := range lab {
				lab[i] = l
			}
			f(lab)
		}
		r := w.Rand(w.Case)
		for k := 0; k < 2; k++ {
			f(decodeLabels(r.Intn(total), slots, numLabels))
		}
		return
	}
	// 3 internal nodes: every labelling over {var, cmpVar} plus a PRNG sample of the rest
	t2 := ipow(2, slots)
	for l := chunk; l < t2; l += enumChunks {
		lab := decodeLabels(l, slots, 2)
		for i := range lab {
			lab[i] += lbVar
		}
		f(lab)
	}
	r := w.Rand(w.Case)
	for k := 0; k < 6; k++ {
		f(decodeLabels(r.Intn(total), slots, numLabels))
	}
}

func shapeInternal(s *Shape) int {
	if s.K == skSlot {
		return 0
	}
	n := 1
	for _, c := range s.Ch {
		n += shapeInternal(c)
	}
	return n
}

func c01Run(w *W, idx int) {
	ne := c01EnumCases(w.Tier)
	if idx < ne {
		shapes := enumShapesFor(w.Tier)
		s := shapes[idx/enumChunks]
		labellingsFor(w, s, shapeInternal(s), idx%enumChunks, func(labels []int) {
			tree, vars := s.build(labels)
			var bs []Binding
			for a := 0; a < ipow(2, len(vars)); a++ {
				bs = append(bs, enumAssignment(vars, a, 2))
			}
			c01Program(w, "enum", tree, bs, idx%2 == 1, false)
		})
		w.Inc("enum_shapes")
		return
	}
	r := w.Rand(idx)
	k := idx - ne
	var (
		tree *Node
		name string
	)
	if k%23 == 22 {
		name = "right-nested"
		tree = rightNested(r, []int{5, 6, 7, 8, 9, 14, 15, 16, 17, 18, 30, 100, 400}[r.Intn(13)], r.Intn(3))
	} else {
		var s *Stratum
		s, _, tree = pickStratum(r, k)
		name = s.Name
	}
	nb := 8
	if w.Thorough() {
		nb = 12
	}
	unbound := 0.0
	if name == "failing" || name == "mixed" {
		unbound = 0.08
	}
	bs := genBindings(r, tree, nb, unbound)
	c01Program(w, name, tree, bs, r.Intn(2) == 0, true)
}

func c01Program(w *W, stratum string, tree *Node, bs []Binding, undefined bool, entryPoints bool) {
	src := tree.Prefix()
	cfg := cfgFor(tree, OptNone, undefined)
	cfgRec := &Recorder{}
	cc := buildConfig(cfg, cfgRec)
	e, co := compileGuard(cc, src)
	w.Inc("programs")
	w.Inc("programs_" + stratum)
	if co.Panic != nil {
		w.Fail("compile-panic/"+normPanic(co.Panic)+"@"+panicSite(co.Stack), "Compile panicked: %v\nsource: %s\nconfig: %s\n%s", co.Panic, src, cfg, co.Stack)
		return
	}
	if co.Err != nil {
		if c09Expect(tree, cfg.Opts, cfg.Events) != 0 {
			w.Inc("rejected_by_capacity_limit")
			return
		}
		w.Fail("compile-rejects-wellformed", "Compile rejected a well-formed program: %v\nsource: %s\nconfig: %s", co.Err, firstN(src, 3000), cfg)
		return
	}
	w.Sample(stratum, src)
	ops := tree.OpCount()
	var maxStack int16
	if hooksCompiled {
		_, maxStack = progSnapshot(e)
	}
	for bi, b := range bs {
		env := refEnv(b)
		env.WantCov = true
		want, wantErr := env.Eval(tree)
		rec := &Recorder{}
		tr := NewTracer()
		tr.MaxStack = maxStack
		o, _ := callExpr(e, CallEval, fetcherFor(b, rec), tr, false)
		w.Evals++
		w.Count("hook_steps", tr.Steps)
		w.Count("hook_jumps", tr.Jumps)
		if tr.Bad != "" {
			w.Fail("step-monitor/"+stepSig(tr.Bad), "%s\n%s", tr.Bad, describeCase(src, cfg, b))
		}
		if d := sameOutcome(o, want, wantErr); d != "" {
			sig := "eval-vs-reference/" + stratum
			if o.Panic != nil {
				sig = "eval-panic/" + normPanic(o.Panic) + "@" + panicSite(o.Stack)
			}
			w.Fail(sig, "%s\n%s\n%s", d, describeCase(src, cfg, b), o.Stack)
			continue
		}
		if be, ok := wantErr.(*BuiltinErr); ok {
			w.Inc("builtin_errors")
			if iso, ok := isolatedError(be); ok {
				w.Inc("isolation_checks")
				if iso != o.Err.Error() {
					w.Fail("error-identity/builtin", "error is not the one the failing operator returns when run alone\nengine: %q\nalone:  %q (%s%s)\n%s", o.Err, iso, be.Op, argsText(be.Args), describeCase(src, cfg, b))
				}
			} else {
				w.Fail("isolation/"+be.Op, "reference predicts that %s%s fails, but run alone through the engine it does not\n%s", be.Op, argsText(be.Args), describeCase(src, cfg, b))
			}
		} else if wantErr != nil {
			w.Inc("sentinel_errors")
		}
		// coverage from the reference evaluation
		cv := env.Cov
		w.Count("cov_and_false", int64(cv.AndFalse))
		w.Count("cov_or_true", int64(cv.OrTrue))
		w.Count("cov_multilevel", int64(cv.MultiLevel))
		w.Count("cov_if_branch_decides", int64(cv.IfBranchDecides))
		w.Count("cov_err_after_jump", int64(cv.ErrAfterJump))
		w.Count("cov_err_skipped", int64(cv.ErrSkipped))
		for n, c := range cv.OpsApplied {
			w.Count("op_"+n, int64(c))
		}
		if ops >= 3 && (cv.AndFalse+cv.OrTrue > 0 || wantErr != nil) {
			w.Nontrivial(src, b.String())
		}

		if !entryPoints || bi > 2 {
			continue
		}
		// EvalBool adds exactly the "non-boolean result is an error" rule
		ob := guard(func() (eval.Value, error) {
			return e.EvalBool(&eval.Ctx{VariableFetcher: fetcherFor(b, nil)})
		})
		w.Evals++
		switch {
		case ob.Panic != nil:
			w.Fail("evalbool-panic/"+normPanic(ob.Panic), "EvalBool panicked: %v\n%s", ob.Panic, describeCase(src, cfg, b))
		case wantErr != nil:
			if d := sameOutcome(ob, nil, wantErr); d != "" {
				w.Fail("evalbool-vs-reference", "EvalBool: %s\n%s", d, describeCase(src, cfg, b))
			}
		default:
			if wb, isB := want.(bool); isB {
				if ob.Err != nil || ob.V != wb {
					w.Fail("evalbool-vs-reference", "EvalBool gave %s, reference %v\n%s", ob, wb, describeCase(src, cfg, b))
				}
			} else if ob.Err == nil {
				w.Fail("evalbool-accepts-nonbool", "EvalBool returned %s for a non-boolean result %s\n%s", ob, valText(want), describeCase(src, cfg, b))
			}
		}

		// fully bound bindings: the stock fetchers and the convenience entry point
		if len(b.Vals) >= len(cfg.VarNames) && allBound(tree, b) {
			vals := map[string]interface{}{}
			for k, v := range b.Vals {
				vals[k] = v
			}
			if !undefined {
				o2 := guard(func() (eval.Value, error) { return e.Eval(eval.NewCtxFromVars(cc, vals)) })
				w.Evals++
				if d := sameOutcome(o2, want, wantErr); d != "" {
					w.Fail("newctxfromvars-vs-reference", "NewCtxFromVars: %s\n%s", d, describeCase(src, cfg, b))
				}
			}
			if bi == 0 {
				c01Convenience(w, tree, src, cfg, b, want, wantErr)
			}
		}
	}
	if cfgRec.CompileCalls != 0 {
		w.Fail("compile-time-call/optimizations-off", "registered operators were invoked %d times during Compile with all optimizations off\nsource: %s", cfgRec.CompileCalls, src)
	}
}

func allBound(tree *Node, b Binding) bool {
	order, _ := tree.Vars()
	for _, v := range order {
		if _, ok := b.Vals[v]; !ok {
			return false
		}
	}
	return true
}

// c01Convenience: eval.Eval(src, vals, opts...) registers variables and operators itself.
func c01Convenience(w *W, tree *Node, src string, cfg CaseCfg, b Binding, want interface{}, wantErr error) {
	vals := map[string]interface{}{}
	order, _ := tree.Vars()
	for _, v := range order {
		vals[v] = b.Vals[v]
	}
	used := map[string]bool{}
	tree.Walk(func(n *Node) {
		if n.Kind == KOp {
			if _, ok := stdCustom[n.Name]; ok {
				used[n.Name] = true
			}
		}
	})
	for n := range used {
		vals[n] = wrapCustom(stdCustom[n], nil)
	}
	constConf := eval.NewConfig()
	for k, v := range cfg.Consts {
		constConf.ConstantMap[k] = copyVal(v)
		if k == "kshadow" || k == "ishadow" {
			vals[k] = b.Vals[k]
		}
	}
	o := guard(func() (eval.Value, error) {
		return eval.Eval(src, vals, eval.RegVarAndOp(vals), eval.ExtendConf(constConf), eval.Optimizations(false))
	})
	w.Evals++
	w.Inc("convenience_calls")
	if d := sameOutcome(o, want, wantErr); d != "" {
		w.Fail("convenience-eval-vs-reference", "eval.Eval(src, vals, ...): %s\n%s", d, describeCase(src, cfg, b))
	}
}

func c01Floors(m *Merged, tier string) []string {
	var unmet []string
	for _, n := range allBuiltinNames() {
		if m.C("op_"+n) == 0 {
			unmet = append(unmet, "operator/alias never applied: "+n)
		}
	}
	for _, c := range []string{"cov_and_false", "cov_or_true", "cov_multilevel", "cov_if_branch_decides", "cov_err_after_jump", "cov_err_skipped", "sentinel_errors", "isolation_checks", "convenience_calls"} {
		if m.C(c) == 0 {
			unmet = append(unmet, c+" = 0")
		}
	}
	for _, s := range strata {
		if m.C("programs_"+s.Name) == 0 {
			unmet = append(unmet, "no program from stratum "+s.Name)
		}
	}
	if m.C("programs_enum") == 0 || m.C("programs_right-nested") == 0 {
		unmet = append(unmet, "enumerated or right-nested programs missing")
	}
	if len(unmet) > 6 {
		unmet = append(unmet[:6], fmt.Sprintf("... and %d more", len(unmet)-6))
	}
	return unmet
}
