package main

// Independent reader for Dump output (prefix notation) and an independent
// lexer written from the token rules of the language (used by C13/C14).

import (
	"errors"
	"strconv"
	"strings"
	"unicode"
)

type TokKind int

const (
	TkLParen TokKind = iota
	TkRParen
	TkLBracket
	TkRBracket
	TkComma
	TkComment
	TkString
	TkWord
)

type Tok struct {
	Kind TokKind
	Text string // string: contents without quotes; comment: text incl. leading ';' (right-trimmed); word: the word
}

var errUnclosed = errors.New("unclosed quotes")

// indepLex: separators are Unicode spaces; ( ) [ ] , are single-character
// tokens; ';' at a token start begins a comment to the end of the line; '"' at
// a token start opens a raw string up to the next '"'. A ';' inside a word
// ends the word.
func indepLex(src string) ([]Tok, error) {
	rs := []rune(src)
	var toks []Tok
	i := 0
	for i < len(rs) {
		r := rs[i]
		switch {
		case unicode.IsSpace(r):
			i++
		case r == '(':
			toks = append(toks, Tok{Kind: TkLParen, Text: "("})
			i++
		case r == ')':
			toks = append(toks, Tok{Kind: TkRParen, Text: ")"})
			i++
		case r == '[':
			toks = append(toks, Tok{Kind: TkLBracket, Text: "["})
			i++
		case r == ']':
			toks = append(toks, Tok{Kind: TkRBracket, Text: "]"})
			i++
		case r == ',':
			toks = append(toks, Tok{Kind: TkComma, Text: ","})
			i++
		case r == ';':
			j := i
			for j < len(rs) && rs[j] != '\n' {
				j++
			}
			toks = append(toks, Tok{Kind: TkComment, Text: strings.TrimRightFunc(string(rs[i:j]), unicode.IsSpace)})
			i = j
		case r == '"':
			j := i + 1
			for j < len(rs) && rs[j] != '"' {
				j++
			}
			if j >= len(rs) {
				return toks, errUnclosed
			}
			toks = append(toks, Tok{Kind: TkString, Text: string(rs[i+1 : j])})
			i = j + 1
		default:
			j := i
			for j < len(rs) && !unicode.IsSpace(rs[j]) && !strings.ContainsRune("()[];,", rs[j]) {
				j++
			}
			toks = append(toks, Tok{Kind: TkWord, Text: string(rs[i:j])})
			i = j
		}
	}
	return toks, nil
}

func toksEqual(a, b []Tok, withComments bool) bool {
	f := func(t []Tok) []Tok {
		if withComments {
			return t
		}
		var r []Tok
		for _, x := range t {
			if x.Kind != TkComment {
				r = append(r, x)
			}
		}
		return r
	}
	a, b = f(a), f(b)
	if len(a) != len(b) {
		return false
	}
	for i := range a {
		if a[i] != b[i] {
			return false
		}
	}
	return true
}

var errDumpSyntax = errors.New("dump text is not a well-formed prefix expression")

// parseDump reads prefix text (as Dump prints it) back into a harness tree.
// Words that are not true/false/integers are variables; the head of a
// non-list parenthesis is an operator name ("if" gives an if node).
func parseDump(s string) (n *Node, err error) {
	toks, lerr := indepLex(s)
	if lerr != nil {
		return nil, lerr
	}
	p := 0
	defer func() {
		if r := recover(); r != nil {
			n, err = nil, errDumpSyntax
		}
	}()
	atom := func(t Tok) *Node {
		if t.Kind == TkString {
			return Lit(t.Text)
		}
		if t.Kind != TkWord {
			panic("atom")
		}
		switch t.Text {
		case "true":
			return Lit(true)
		case "false":
			return Lit(false)
		}
		if v, e := strconv.ParseInt(t.Text, 10, 64); e == nil {
			return Lit(v)
		}
		return Var(t.Text, TAny)
	}
	var rd func() *Node
	rd = func() *Node {
		t := toks[p]
		p++
		if t.Kind != TkLParen {
			return atom(t)
		}
		if toks[p].Kind == TkRParen {
			p++
			return Lit([]string{})
		}
		head := toks[p]
		isInt := false
		if head.Kind == TkWord {
			_, e := strconv.ParseInt(head.Text, 10, 64)
			isInt = e == nil
		}
		if head.Kind == TkString || isInt {
			var ints []int64
			var strs []string
			for toks[p].Kind != TkRParen {
				a := atom(toks[p])
				p++
				switch v := a.Val.(type) {
				case int64:
					if strs != nil {
						panic("mixed list")
					}
					ints = append(ints, v)
				case string:
					if ints != nil {
						panic("mixed list")
					}
					strs = append(strs, v)
				default:
					panic("bad list element")
				}
			}
			p++
			if ints != nil {
				return Lit(ints)
			}
			return Lit(strs)
		}
		if head.Kind != TkWord {
			panic("bad head")
		}
		p++
		n := &Node{Kind: KOp, Name: head.Text, Ty: TAny}
		if head.Text == "if" {
			n.Kind = KIf
		}
		for toks[p].Kind != TkRParen {
			n.Ch = append(n.Ch, rd())
		}
		p++
		return n
	}
	n = rd()
	if p != len(toks) {
		return nil, errDumpSyntax
	}
	return n, nil
}

func oneLine(s string) string { return strings.Join(strings.Fields(s), " ") }
