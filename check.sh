#!/bin/sh
# check.sh <Cxx> <quick|thorough>       run a property check (rebuilds the harness against /repo's working tree)
# check.sh <Cxx> replay <file>          re-execute a recorded case
# check.sh build                        build only
cd "$(dirname "$0")" || exit 2
export GOFLAGS=-mod=mod GOPROXY=off GOSUMDB=off GOTOOLCHAIN=local CGO_ENABLED=1
mkdir -p bin run evidence
LOCK=run/.build.lock
# VERIF_REPO: build against another checkout of onheap/eval (default /repo, as go.mod says); used for background sweeps
MODFLAG=""
if [ -n "$VERIF_REPO" ] && [ "$VERIF_REPO" != "/repo" ]; then
  sed "s#=> /repo#=> $VERIF_REPO#" harness/go.mod > run/alt.go.mod
  : > run/alt.go.sum
  MODFLAG="-modfile=$(pwd)/run/alt.go.mod"
fi
build() {
  # serialise builds (several checks may be started at once); go's build cache keys on /repo's content
  (
    flock 9
    cd harness || exit 2
    if ! go build $MODFLAG -tags verif -o ../bin/vcheck . 2>../run/build.err; then
      echo "NOTE: harness does not build with -tags verif; falling back to an untagged (degraded, hook-less) build" >&2
      cat ../run/build.err >&2
      go build $MODFLAG -o ../bin/vcheck . || exit 2
    fi
    if [ "$1" = race ]; then
      if ! go build $MODFLAG -race -tags verif -o ../bin/vcheck-race . 2>../run/build-race.err; then
        cat ../run/build-race.err >&2
        go build $MODFLAG -race -o ../bin/vcheck-race . || exit 2
      fi
    fi
  ) 9>"$LOCK"
}
case "$1" in
  build) build race; exit $? ;;
esac
PROP="$1"; MODE="${2:-quick}"
case "$PROP" in
  C07|C08|C12) build race || { echo "build failed" >&2; exit 2; } ;;
  *) build || { echo "build failed" >&2; exit 2; } ;;
esac
case "$MODE" in
  replay) exec ./bin/vcheck -replay "$3" ;;
  quick|thorough) exec ./bin/vcheck -prop "$PROP" -tier "$MODE" ;;
  *) echo "usage: check.sh <Cxx> quick|thorough|replay <file>" >&2; exit 2 ;;
esac
