#!/usr/bin/env python3
"""Regenerates MANIFEST.json. CLAIMED lists the properties whose checks exist and are silent on the unchanged tree."""
import json, subprocess, sys

CLAIMED = sys.argv[1].split(",") if len(sys.argv) > 1 else ["C%02d" % i for i in range(1, 21)]

ids = [json.loads(l)["id"] for l in open("/verif/properties.jsonl")]
log = subprocess.check_output(["git", "-C", "/repo", "log", "--reverse", "--format=%h %s"]).decode().strip().split("\n")
hooks = [l.split()[0] for l in log if len(l.split()) > 1 and l.split()[1] == "verif:"]

T = {
 "C01": ("differential runtime monitoring: real Compile/Eval vs independent reference interpreter on enumerated + random programs; step-hook assertions",
         "Held on every execution observed: bounded-exhaustive for all boolean-core trees up to the stated size x all assignments, sampled beyond. The oracle is a naive tree interpreter; errors are checked by sentinel identity and by re-running the failing built-in alone. Exploration is the right level: the property quantifies over all programs and bindings, and the monitor decides each observed execution exactly.",
         "Trusted base: harness/ref.go, harness generators, Go runtime. Not a proof; programs outside the generated strata and sizes are not covered."),
 "C02": ("metamorphic/differential runtime monitoring over 16 option subsets x directive/option selection x cost maps, reference interpreter as oracle",
         "Every program is executed under all configurations and the three clauses of the property are judged per execution; bounded-exhaustive for small trees, sampled beyond.",
         "Trusted base: ref.go ('strict' reading documented in DESIGN 4/C02). Coverage floors require every optimizer to have changed >=100 programs. One open known finding (an inlined two-leaf and/or applies its operator to an ill-typed second leaf although the first leaf decides)."),
 "C03": ("effect-trace monitoring: recording VariableFetcher and recording registered operators vs reference trace of the dumped tree",
         "The observable effects of each execution (fetches, operator calls, in order, with arguments) are compared with the left-to-right short-circuit trace of the optimized tree; only the extra fetch the property permits is tolerated.",
         "Trusted base: ref.go, independent Dump reader. Assumes Dump shows the optimized form (C13)."),
 "C04": ("runtime monitoring of TryEval against enumerated completions evaluated by Eval on the same compiled program",
         "For each definite TryEval answer every completion of the unavailable variables (exhaustive below a cap) is executed; monotonicity is checked along all covering pairs of availability splits for <=5 variables.",
         "Truthful fetchers only. Completion domains are finite samples of the value space (flip values of every comparison literal)."),
 "C05": ("runtime monitoring of TryEval against an independent three-valued (Kleene) evaluator",
         "Each execution of TryEval on total programs is compared with the Kleene value; exhaustive over {true,false,unavailable} assignments of all small boolean-core trees.",
         "Trusted base: Kleene evaluator in ref.go; totality of generated programs by construction."),
 "C06": ("crash/hang monitoring (recover, process death, watchdog, step hook) under generated, mutated and boundary inputs",
         "Every input is executed in worker processes whose deaths and stalls are attributed to the journaled case; panics are caught per call; program positions are asserted strictly increasing at the hook.",
         "Termination of code without a step hook is observed by a wall-clock watchdog only (a firing must reproduce alone to count). One open known finding (stack overflow beyond ~2.5e6 nesting)."),
 "C07": ("Go race detector + per-call result oracle + before/after program snapshot under concurrent and sequential call histories with hook-injected yields",
         "Races are detected on the accesses the workload performs concurrently; every call's result is compared with its isolated result; the flat program is snapshotted through the read-only hook before and after each history.",
         "Schedules are sampled, not enumerated. Race detector only sees executed interleavings."),
 "C08": ("config snapshot comparison before/after Compile, determinism across repeated/shuffled/concurrent compilations, aliasing probes, Go race detector",
         "Each Compile is bracketed by deep snapshots of the caller's Config; repeated and concurrent compilations are compared by Dump text and behaviour.",
         "Concurrent schedules are sampled. Snapshot covers all five maps, option values and the stateless list incl. backing array."),
 "C09": ("boundary-value runtime monitoring: enumerated programs at the operand/node/stack limits with closed-form expected values; stack assertions at the step hook",
         "The complete boundary grid is executed under every configuration; each program must be rejected with an error or evaluate to its closed-form value; the hook asserts the allocated stack suffices and the recorded maximum bounds use.",
         "Grid is finite and enumerated completely; sizes away from the boundaries are sampled by other checks."),
 "C10": ("invocation-counter monitoring of registered operators during Compile and repeated Eval; reference folder for upper bounds on folding",
         "Operator invocations are counted at compile time (nil ctx) and at run time and compared with the reference trace; a reference folder bounds which variables may disappear from Dump.",
         "Only upper bounds on folding are asserted. Trusted base: ref.go, Dump reader."),
 "C11": ("runtime monitoring of variable delivery under generated registration histories, key layouts and fetcher choices; bijection check of the key map after every registration",
         "Weighted-sum probes identify which value each variable position received; all layouts of the same binding must agree with the oracle.",
         "Layouts sampled around the fetcher switch boundaries; value types at their extremes."),
 "C12": ("event-stream monitoring: OP_EXEC/LOOP events vs reference application sequence, three consumer timings, retained-event comparison, race detector",
         "Every observed event stream is judged against the reference sequence of operator applications; events are compared at receipt and after the evaluation finished.",
         "and/or applications are optional in the oracle (the engine may skip them when decided). TryEval events are checked for internal consistency only."),
 "C13": ("round-trip runtime monitoring: Compile(Dump(e)) vs e on all bindings plus reference evaluation of the independently parsed dump",
         "Each program's dump is recompiled, re-dumped and evaluated; an independent reader + reference interpreter prevents symmetric mistakes from cancelling.",
         "String pool covers every character class the lexer can produce; constants restricted to values with a textual form."),
 "C14": ("metamorphic runtime monitoring of re-layouts (whitespace/comment insertion, minimal spacing, formatter) with an independent lexer as token oracle",
         "Each re-layout must have the same token sequence (independent lexer) and compile to the same Dump and results; formatter output must keep tokens and comments.",
         "Trusted base: independent lexer in sexpr.go written from the token rules."),
 "C15": ("differential runtime monitoring: infix and prefix renderings of one harness tree must compile to the same (alias-normalised) tree and results",
         "Both texts derive from one tree; precedence/associativity come from the property text, not from the parser.",
         "Trusted base: harness infix renderer."),
 "C16": ("runtime monitoring of Reordering through Dump and fetch order under generated cost maps and cost-map pairs; unique tags make operand positions unambiguous",
         "Permutation-only, stability (>=13 equal-cost operands), monotonicity in one cost entry and the large-cost clause are judged on each observed compilation.",
         "Equal cost is asserted only for operands built cost-isomorphic; the cost formula is not re-implemented."),
 "C17": ("differential runtime monitoring of in/overlap against a Go-map set oracle across the scan/hash switch",
         "Enumerated length pairs around the 100-element switch, chosen overlap positions, both element types, literals/variables/sets, symmetric checks.",
         "Finite grid + random fill."),
 "C18": ("grid-enumeration runtime monitoring of every scalar operator and alias against an int64/bool oracle",
         "Complete grid over operator x operand count x extreme values x wrong types, literals and variables, optimizations off and on.",
         "One open known finding (and/or short-circuit bypasses operator checks)."),
 "C19": ("differential runtime monitoring of version/date encodings against comparison of the source strings and independent calendar arithmetic",
         "All pairs of a boundary set of versions for every valid length and alias; dates across month/year/leap boundaries, custom layouts, rejection set.",
         "Oracle compares strings; calendar arithmetic independent of package time."),
 "C20": ("differential runtime monitoring of GenerateRandomExpr against the independent reference (plain and Kleene)",
         "Every generated expression is compiled, evaluated by the engine and by the reference, and compared with the reported result, over seeds x levels x option combinations x variable maps.",
         "Trusted base: ref.go and Dump-independent reader of the generated text."),
}

race = {"C07", "C08", "C12"}
checks = []
for i in ids:
    if i not in CLAIMED:
        continue
    tech, text, note = T[i]
    checks.append({
        "property_id": i,
        "quick_cmd": f"./check.sh {i} quick",
        "thorough_cmd": f"./check.sh {i} thorough",
        "evidence_file": f"evidence/{i}.json",
        "replay_cmd_template": f"./check.sh {i} replay {{path}}",
        "engine": "vcheck",
        "level_claimed": {"category": "exploration", "text": text, "design_ref": f"DESIGN.md section 4, {i}"},
        "level_note": note,
        "technique": tech,
    })
m = {
    "version": 1,
    "setup_cmd": "./setup.sh",
    "hooks": {
        "guard": "verif",
        "enable": "go build -tags verif (the harness module replaces github.com/onheap/eval with /repo, so every check rebuilds from /repo's working tree)",
        "baseline_off_cmd": "cd /repo && GOFLAGS=-mod=mod GOPROXY=off GOSUMDB=off GOTOOLCHAIN=local go test -json -vet=off -count=1 -timeout 25m ./...",
        "source_commits": hooks,
        "add_only": True,
    },
    "engines": [{"name": "vcheck", "path": "harness/", "serves_properties": [c["property_id"] for c in checks],
                 "kind_free_text": "Go harness (stdlib only): generators, reference interpreter, monitors on hooked state / recording fetchers / event channel, worker processes with journals and watchdog, race-detector build for C07/C08/C12"}],
    "checks": checks,
    "notes": "Exit codes: 0 held on everything observed (possibly with KNOWN-FINDING lines), 1 violation (VIOLATION property=<id> replay=<path>), 2 build/infrastructure failure, 3 inconclusive (an API-level coverage floor was not met). VERIF_SEED seeds every PRNG. known_findings.json lists open findings and fixed defects.",
    "not_applicable": [{"property_id": i, "reason": "check not yet built in this revision (framework under construction; DESIGN.md section 4 describes the planned monitor)"} for i in ids if i not in CLAIMED],
}
json.dump(m, open("/verif/MANIFEST.json", "w"), indent=1)
print("claimed:", [c["property_id"] for c in checks])
