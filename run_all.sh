#!/bin/sh
# run_all.sh [quick|thorough] : run every check in sequence on /repo's current tree; prints one summary line per check.
cd "$(dirname "$0")" || exit 2
TIER="${1:-quick}"
mkdir -p run bin evidence
rc_all=0
for P in C01 C02 C03 C04 C05 C06 C07 C08 C09 C10 C11 C12 C13 C14 C15 C16 C17 C18 C19 C20; do
  ./check.sh $P $TIER > run/last-$P.out 2>&1
  rc=$?
  [ $rc -ne 0 ] && rc_all=1
  echo "rc=$rc $(tail -1 run/last-$P.out)"
  grep -h "^VIOLATION\|^INCONCLUSIVE" run/last-$P.out | head -5
done
exit $rc_all
