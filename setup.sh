#!/bin/sh
# Builds the harness binaries offline from files on disk.
set -e
cd "$(dirname "$0")"
exec ./check.sh build
